#!/venv/bin/python
"""Replaces the two tables of DESIGN.md 10.5 by the output of tools/sens_table.py (current selftest/sensitivity-report.json)."""
import os, subprocess, sys
V = os.path.dirname(os.path.dirname(os.path.abspath(__file__)))
new = subprocess.run([sys.executable, os.path.join(V, 'tools', 'sens_table.py')], capture_output=True, text=True).stdout.rstrip('\n').split('\n')
p = os.path.join(V, 'DESIGN.md')
lines = open(p).read().split('\n')
start = next(i for i, l in enumerate(lines) if l.startswith('| change | what it is | suite |'))
hdr2 = next(i for i, l in enumerate(lines) if l.startswith('| mutant / control | kind |'))
end = hdr2
while end + 1 < len(lines) and lines[end + 1].startswith('|'):
    end += 1
lines[start:end + 1] = new
open(p, 'w').write('\n'.join(lines))
print('replaced %d..%d by %d lines' % (start, end, len(new)))

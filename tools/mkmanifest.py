#!/venv/bin/python
"""Regenerates /verif/MANIFEST.json (kept as code so that claimed / not-applicable stay in sync)."""
import json, os, sys
HERE = os.path.dirname(os.path.dirname(os.path.abspath(__file__)))

NA = {
"C01":"pure function of (gender,event,mark,age,esaa); no schedule, clock, fault or history in the quantifier (inputs) - its only shared state, the lazily built coefficient map, is covered under C16; an input-grid sweep is another technique (DESIGN 6)",
"C04":"equality/disjointness of regular languages over all strings: a symbolic question about constants in codes.py; nothing executes nondeterministically (DESIGN 6)",
"C05":"monotonicity of pure scoring functions over adjacent inputs; no state, schedule or fault participates (DESIGN 6)",
"C06":"pure string/number functions (round_up_str_num, format_seconds_as_time, parse_hms); for-all over inputs only (DESIGN 6)",
"C07":"normalize_event_code is a pure function on a regular language; idempotence/closure are input properties (DESIGN 6)",
"C09":"inverse relation between two pure functions over an integer grid; input-quantified (DESIGN 6)",
"C10":"totality/ordering of pure sort-key functions over the event-code language; no shared state (DESIGN 6)",
"C11":"table lookups and linear formulas versus published tables; pure, input/configuration-quantified (DESIGN 6)",
"C12":"check_performance_for_discipline is a pure cascade of format heuristics; nothing to schedule or fail (DESIGN 6)",
"C13":"pure function of two explicit dates; no clock is read for complete date strings (DESIGN 6)",
"C14":"pure function of (table year, gender, event, age, mark) once the table is loaded; sequentially no history dependence - the shared-grader scratch fields under threads are covered by C16 (DESIGN 6)",
"C15":"betweenness/monotonicity of a pure interpolation over the distance axis; input-quantified (DESIGN 6)",
"C17":"pure table lookups and string formatting over (event, gender, age group); static closure of table keys (DESIGN 6)",
"C18":"agreement of two deterministic programs (JS and Python ports) on shared inputs: differential testing, no interleaving, fault or history between them (DESIGN 6)",
}
PENDING = "check planned (DESIGN 0) but not built yet in this tree; moves to checks[] once its engine is committed"

CHECKS = {
 "C16": dict(engine="thrsim", design_ref="DESIGN.md 3",
   technique="deterministic simulation: real threads under a seeded baton scheduler (pre-emption at sys.settrace line events, and inside a line at sys.monitoring instruction events), seeded search over schedules, per-call oracle from the tree's own sequential runs, sequential epilogue calls after every schedule",
   text="Seeded exploration of thread interleavings at athlib source-line granularity (<=3 forced pre-emptions, 2-3 threads, first-call / warmed-up / cache-at-limit base states) over the public scoring, age-grading and validation calls; every call's outcome must be one it has in some call-atomic sequential order of the same tree. After the threads of a schedule have finished, 2-7 further calls (the same ones, neighbours, fresh ones) are made sequentially and judged by the same oracle, so state a race left half-built or overwritten is seen even when the racing calls themselves were lucky. One schedule in nine pre-empts INSIDE a source line, before its n-th bytecode instruction (a test and its use written on one line). The recorded failing schedules of the repaired defects are re-executed first (regression corpus). Uncommitted changes in athlib/ steer about half of the scenarios to the function families that execute the changed files. Sampling, not proof: quick ~5.2e4 schedules over 1800 scenarios (incl. ~4e3 from depth-one sweeps of every 60th scenario), thorough ~1.0e6 over 24000; evidence reports distinct interleavings reached, where switches landed and which executed lines never saw one.",
   note="Trusts CPython's line tracing and fork() as a fresh process; pre-emption only in athlib frames (not inside jsonschema/stdlib); locks, conditions, events, semaphores and queues reachable from athlib (module globals, instance and __slots__ attributes, closures, default arguments) are replaced by cooperative ones (a wait nobody can end is reported as deadlock); the oracle is the same tree run sequentially, so purely sequential bugs are invisible here."),
 "C02": dict(engine="hjsim", design_ref="DESIGN.md 4.3-4.4",
   technique="deterministic simulation: seeded multi-actor histories (officials, athletes, heckler issuing rule-violating requests) against an executable reference model; refusal atomicity by before/after snapshots",
   text="Seeded exploration of call histories on one competition object (1-4 athletes, <=4+3 heights quick, <=8+6 thorough, <=140/250 calls; scripted competitions with a heckler, and free random walks over the whole alphabet). After every call: accepted <=> the rule-text model says legal; a refusal is a RuleViolation and leaves state, heights, cards, bests, places, log and trials bit-identical; an acceptance is logged exactly once and shows on the card; the state only moves forward. Every 256th run (512th thorough) cuts its history at a seeded point and tries EVERY sequence of two calls over the whole alphabet from the state reached; in 40 % of the runs calls on a second competition object of the same process are interleaved and must leave this one untouched. Sampling, not proof (quick 4.8e5 histories + ~3e5 enumerated continuations, thorough 6e6).",
   note="Trusts the reference model (simkit/hjmodel.py, ~200 lines, written from the rule text; cases the text leaves open are tolerated either way) and reads the competition phase from the implementation, validating it with necessary conditions only."),
 "C03": dict(engine="hjsim", design_ref="DESIGN.md 4.6",
   technique="deterministic simulation: seeded complete competitions with scripted ties and jump-offs; places and bests checked against countback recomputed from the result cards alone",
   text="Seeded exploration of complete competitions (2-4 athletes, shared scripts to provoke countback ties, well-formed jump-offs with the bar raised, repeated or lowered, retirements). Bests are checked after every call; whenever the state is finished/won/drawn the places must equal the competition ranking computed from the cards (three countback levels), jump-off participants must stay ahead of non-participants with the survivor first, a tie for first may not stand in 'finished'; jump-off entry and later re-instatements are cross-checked with the countback tie set / the round bookkeeping. Two bounded-liveness clauses: once everybody is out, and once a well-formed jump-off round has left a single survivor over the bar, the competition must be decided. Sampling, not proof (quick 6e5 competitions, thorough 6e6).",
   note="Countback oracle and jump-off bookkeeping are the model's; jump-offs with passes or skipped attempts and competitions where nobody cleared anything are followed but not judged (text silent)."),
 "C08": dict(engine="hjsim", design_ref="DESIGN.md 4.5",
   technique="deterministic simulation with crash/recover fault injection: rebuild from the action log (then lock-step shadow) or from the exported card at seeded points, and seeded re-scheduling of the jumping order",
   text="Seeded histories (as C02, heckled) with injected recoveries: from_actions() replicas must equal the original snapshot and stay equal call for call for the rest of the run; to_matrix()/from_matrix() round trips must reproduce state, heights, bests, places and cards modulo pass marks; the accepted history re-executed under 4 fixed adversarial and several seeded random per-height interleavings must be accepted call for call and end in the same cards, state, bests and places. Every 160th run enumerates every single next call at a seeded state, each followed by a recovery from the log, from the card and every interleaving of the current height; calls on a second competition object of the same process may not disturb the original or its recovered replicas. A violation that only shows after earlier competitions of the same process is confirmed in a fresh interpreter and reported with the sequence of runs as its replay. Sampling, not proof (quick 1.3e5 histories with ~3e6 recoveries/re-schedules incl. every interleaving of the current height when there are at most 24, thorough 2e6 histories).",
   note="Equality is over public observables only (state, heights, bar, log, trials, cards, bests, places); private flags are compared indirectly through the lock-step continuation."),
 "C19": dict(engine="schemasim", design_ref="DESIGN.md 5",
   technique="deterministic simulation: seeded call histories in processes forked from a pristine importer, per-call oracle = the same call made first in a fresh process; file-open and socket seams (network permanently partitioned)",
   text="Seeded exploration of call histories over schema_valid / valid_against_schema (13 schemas x 8 validator classes incl. three user-defined ones x expect_failure, 25 documents x 13 schemas x expect_failure; relative, absolute, bare and back-slashed file spellings; ~1 900 distinct calls): short histories biased to cache-key collisions (incl. both helpers on one schema file, cross use of files) and long ones overflowing the 20-entry caches (random, fill-then-probe, thrash, sweeps; bounds capped at 2/3/5 in a third). Every call's outcome must equal its fresh-process outcome; the history-free clauses (bundled valid samples validate, invalid ones do not / raise, schemas valid under Draft4, no socket touched, only repository .json files opened) are checked on the fresh table. Sampling, not proof (quick 1e4 histories / 1.7e5 calls, thorough 2e5 histories plus a fresh-interpreter cross-check of the table and diagnostic I/O-fault runs).",
   note="fork() of a never-called importer is taken as a fresh process (cross-checked in the thorough tier); exception outcomes are compared by type and message hash; injected read errors are diagnostic only because the property quantifies over histories, not I/O faults."),
}

def main():
    checks = []
    for pid in sorted(CHECKS):
        c = CHECKS[pid]
        checks.append({
            "property_id": pid,
            "quick_cmd": "cd /verif && /venv/bin/python run_check.py %s --tier quick" % pid,
            "thorough_cmd": "cd /verif && /venv/bin/python run_check.py %s --tier thorough" % pid,
            "evidence_file": "/verif/evidence/%s.json" % pid,
            "replay_cmd_template": "/venv/bin/python /verif/run_check.py --replay {path}",
            "engine": c["engine"],
            "level_claimed": {"category": "exploration", "text": c["text"], "design_ref": c["design_ref"]},
            "level_note": c["note"],
            "technique": c["technique"],
        })
    na = dict(NA)
    for pid in ("C02", "C03", "C08", "C16", "C19"):
        if pid not in CHECKS:
            na[pid] = PENDING
    engines = []
    for name, path, kind in (
        ("thrsim", "simkit/thrsim.py", "deterministic thread-schedule simulator (baton scheduler over real threads, sys.settrace pre-emption, SimLock seam)"),
        ("hjsim", "simkit/hjsim.py", "deterministic multi-actor simulation of a high-jump competition: officials, athletes, heckler (rule-violating requests), crash/recover and re-scheduling, against an executable reference model"),
        ("schemasim", "simkit/schemasim.py", "seeded call-history simulation of the validation helpers in forked fresh processes, with file/network seams")):
        sp = sorted(p for p in CHECKS if CHECKS[p]["engine"] == name)
        if sp:
            engines.append({"name": name, "path": path, "serves_properties": sp, "kind_free_text": kind})
    m = {
     "version": 1,
     "setup_cmd": "cd /verif && /venv/bin/python -m compileall -q simkit run_check.py >/dev/null && /venv/bin/python -c 'import sys; sys.path.insert(0, \"/verif\"); import simkit.common'",
     "hooks": {"guard": "ATHLIB_VERIF",
       "enable": "none needed: the seams are sys.settrace line events, fork() from a pristine importer and harness-side patches; athlib never reads the guard and no hook was added to /repo",
       "baseline_off_cmd": "cd /repo && /venv/bin/python -m pytest -ra -q -p no:cacheprovider --timeout=900 --continue-on-collection-errors",
       "source_commits": [], "add_only": True},
     "engines": engines,
     "checks": checks,
     "not_applicable": [{"property_id": k, "reason": v} for k, v in sorted(na.items())],
     "notes": "All checks: exit 0 = held on everything explored, exit 1 + VIOLATION line(s), exit 2 = HARNESS-ERROR. They honour VERIF_SEED, VERIF_TIER, VERIF_REPO (default /repo), VERIF_WORKERS. Genuine defects found and repaired in /repo are listed as 'fixed:' lines in KNOWN_FINDINGS.txt; see DESIGN.md.",
    }
    with open(os.path.join(HERE, 'MANIFEST.json'), 'w') as f:
        json.dump(m, f, indent=1)
        f.write('\n')

if __name__ == '__main__':
    main()

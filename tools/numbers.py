#!/venv/bin/python
"""Prints the rows of DESIGN.md 10.4 from evidence/*.json (run after the five quick checks on an idle machine)."""
import json, os
V = os.path.dirname(os.path.dirname(os.path.abspath(__file__)))
def ev(c):
    e = json.load(open(os.path.join(V, 'evidence', c + '.json')))
    return e, e['coverage']
for c in ('C16', 'C02', 'C03', 'C08', 'C19'):
    e, cov = ev(c)
    ff = cov.get('faults_fired', {})
    print('| %s | %s evaluations, %.0f s; distinct non-trivial %s; %s | %.1f M/h | %s |' % (
        c, format(cov['evaluations'], ','), e['wall_s'], format(cov['distinct_nontrivial'], ','),
        '; '.join('%s %s' % (k, format(v, ',') if isinstance(v, int) else v) for k, v in sorted(ff.items())),
        cov['runs_per_hour'] / 1e6, cov.get('determinism')))
    for k in ('enumerated_continuations', 'systematic_depth_one_sweeps', 'history_kinds', 'samplers'):
        if k in cov:
            print('    %s: %s' % (k, cov[k]))

#!/venv/bin/python
"""Copies sub-agent deliverables /tmp/seeded-out/<agent>/<vN>/ into /verif/seeded/<PROP>-<agent>-<vN>/
(patch.diff, demo.py, notes.md) and writes a meta.json skeleton (kept if it already exists)."""
import os, sys, json, shutil
SRCS = ['/tmp/seeded-out', '/tmp/seeded-out2', '/tmp/seeded-out4', '/tmp/seeded-out5', '/tmp/seeded-out6', '/tmp/seeded-out7', '/tmp/seeded-out8', '/tmp/seeded-out10']
DST = os.path.join(os.path.dirname(os.path.dirname(os.path.abspath(__file__))), 'seeded')
RELATED = {'C02': ['C02', 'C03', 'C08'], 'C03': ['C03', 'C02', 'C08'], 'C08': ['C08', 'C02'], 'C16': ['C16'], 'C19': ['C19', 'C16']}
for SRC in SRCS:
  for agent in (sorted(os.listdir(SRC)) if os.path.isdir(SRC) else []):
      ad = os.path.join(SRC, agent)
      if not os.path.isdir(ad) or agent.startswith('perm') or agent.startswith('ref') or agent.startswith('nc'):
          continue
      prop = agent[:3].upper()
      for v in sorted(os.listdir(ad)):
          vd = os.path.join(ad, v)
          if not os.path.exists(os.path.join(vd, 'patch.diff')):
              continue
          name = '%s-%s-%s' % (prop, agent, v.replace('extra-refusal-pads-card', 'extra'))
          out = os.path.join(DST, name)
          os.makedirs(out, exist_ok=True)
          for f in ('patch.diff', 'demo.py', 'notes.md'):
              if os.path.exists(os.path.join(vd, f)) and not os.path.exists(os.path.join(out, f)):
                  shutil.copy(os.path.join(vd, f), os.path.join(out, f))
          mf = os.path.join(out, 'meta.json')
          if not os.path.exists(mf):
              json.dump({'property': prop, 'checks': RELATED[prop], 'expect': 'violation', 'demo': 'demo.py',
                         'origin': 'independent sub-agent %s, given only the property text and a scratch worktree' % agent,
                         'needs': 'see notes.md', 'ran': 'selftest/sensitivity.py (results in selftest/sensitivity-report.json)'},
                        open(mf, 'w'), indent=1)
          print(name)

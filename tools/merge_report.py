#!/venv/bin/python
"""merge_report.py <other-report.json>: merges entries of another sensitivity report (e.g. from a `vp run`
snapshot) into selftest/sensitivity-report.json, keeping for every id the entry with the newer 'when'."""
import json, os, sys
V = os.path.dirname(os.path.dirname(os.path.abspath(__file__)))
mine_p = os.path.join(V, 'selftest', 'sensitivity-report.json')
mine = json.load(open(mine_p)); other = json.load(open(sys.argv[1]))
n = 0
for k, v in other.items():
    if k not in mine or v.get('when', '') > mine[k].get('when', ''):
        mine[k] = v; n += 1
json.dump(mine, open(mine_p, 'w'), indent=1, sort_keys=True)
print('merged %d newer entries; %d total' % (n, len(mine)))

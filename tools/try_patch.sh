#!/bin/sh
# try_patch.sh <patch file> <check id> [tier]   - run one check against a scratch git worktree of /repo
# with the patch applied as an *uncommitted* change (so the change-aware budget sees it, as with
# `git -C /repo apply`), evidence/replays redirected to a scratch directory; everything is removed after.
P="$1"; C="$2"; T="${3:-quick}"
W=$(mktemp -d /tmp/athlib-verif-try-XXXXXX); rmdir "$W"
git -C /repo worktree add --detach "$W" HEAD >/dev/null 2>&1 || exit 2
( cd "$W" && git apply "$P" ) || { git -C /repo worktree remove --force "$W"; exit 2; }
O=$(mktemp -d /tmp/athlib-verif-tryout-XXXXXX)
VERIF_REPO="$W" VERIF_OUT="$O" /venv/bin/python /verif/run_check.py "$C" --tier "$T" 2>&1 | grep -v "^WARNING" | tail -${TAILN:-4} | cut -c1-${CUTW:-300}
for f in "$O"/replays/*.json; do [ -f "$f" ] && [ -n "$KEEP" ] && cp "$f" "$KEEP"/; done
git -C /repo worktree remove --force "$W"; git -C /repo worktree prune; rm -rf "$O"

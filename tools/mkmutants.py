#!/venv/bin/python
"""Regenerates /verif/mutants/*.patch (+ .json meta) against /repo's current HEAD.

Three families:
  rev-*   reverse patches of the `fix:` commits (re-introduce a repaired defect)
  m-*     small realistic breaking changes written by hand (DESIGN 3.8 / 4.8 / 5.7)
  nc-*    negative controls: semantics-preserving refactors that must stay silent
Used only by selftest/sensitivity.py.
"""
import os, sys, json, subprocess, difflib

VERIF = os.path.dirname(os.path.dirname(os.path.abspath(__file__)))
REPO = '/repo'
OUT = os.path.join(VERIF, 'mutants')

REVERSE = [  # name, commit subject prefix, checks
    ('rev-F1-bar-state-before-validation', 'fix: set_bar_height validates', ['C02', 'C08']),
    ('rev-F2-jumpoff-best-overwritten', 'fix: a jump-off clearance below', ['C03', 'C02']),
    ('rev-F3-no-rerank-after-reinstatement', 'fix: re-rank after re-instating', ['C08']),
    ('rev-F6-cache-check-then-index', 'fix: read the validation caches once', ['C16']),
    ('rev-F5a-athlon-map-published-empty', 'fix: build the combined-events', ['C16']),
    ('rev-F5b-hungarian-table-published-empty', 'fix: build the Hungarian', ['C16']),
    ('rev-F5c-wma-scratch-on-shared-grader', 'fix: keep WMA lookup indices', ['C16']),
    ('rev-F5d-cache-eviction-iterator', 'fix: evict from the validation caches', ['C16']),
]

HJ = 'athlib/highjump.py'
UT = 'athlib/utils.py'
SP = 'athlib/sportshall_score.py'
AS = 'athlib/athlon_score.py'
HU = 'athlib/hungarian_score.py'
TY = 'athlib/tyrving_score.py'

# name, checks, expect, [(file, old, new), ...]
EDITS = [
    ('m-hj-clearance-keeps-consecutive-failures', ['C02'], 'violation', [(HJ,
        "        self.consecutive_failures = 0\n        self.dismissed = True\n\n    def failed(",
        "        self.dismissed = True\n\n    def failed(")]),
    ('m-hj-log-before-operation', ['C02', 'C08'], 'violation', [(HJ,
        "        jumper.passed(len(self.heights), self.bar_height)\n        self.actions.append(('passed', bib))\n",
        "        self.actions.append(('passed', bib))\n        jumper.passed(len(self.heights), self.bar_height)\n")]),
    ('m-hj-retired-does-not-rerank', ['C02', 'C03', 'C08'], 'violation', [(HJ,
        "        self.actions.append(('retired', bib))\n        self._rank()\n",
        "        self.actions.append(('retired', bib))\n")]),
    ('m-hj-equal-bar-accepted', ['C02'], 'violation', [(HJ,
        "(prev_height >= new_height)", "(prev_height > new_height)")]),
    # equivalent mutant (kept as a control): in 'finished' every athlete is eliminated or has cleared the
    # current height and the bar cannot move any more, so Jumper._set_jump_array refuses the call anyway
    ('nc-hj-finished-not-gated-equivalent', ['C02'], 'silent', [(HJ,
        "            elif state == 'finished':\n                raise RuleViolation('The competition has finished and %s is not allowed!' % label)\n",
        "            elif state == 'finished':\n                pass\n")]),
    ('m-hj-countback-components-swapped', ['C03'], 'violation', [(HJ,
        "            failures_at_height,\n            failures_before_and_at_height,\n            )",
        "            failures_before_and_at_height,\n            failures_at_height,\n            )")]),
    ('m-hj-dense-ranking', ['C03'], 'violation', [(HJ,
        "                    j._place = i + 1\n", "                    j._place = pj._place + 1\n")]),
    ('m-hj-won-without-clearance', ['C02', 'C03'], 'violation', [(HJ,
        "                and 'o' in remj[0].attempts_by_height[-1]):", "                ):")]),
    ('m-hj-pass-counts-as-failure-on-import', ['C08'], 'violation', [(HJ,
        "        elif trial == '-':\n            pass  # sometimes", "        elif trial == '-':\n            self.failed(bib)  # sometimes")]),
    ('m-hj-total-failures-ignore-passed-heights', ['C03'], 'violation', [(HJ,
        "sum(_.count('x') for _ in self.attempts_by_height[:x])",
        "sum(_.count('x') for _ in self.attempts_by_height[:x] if 'o' in _)")]),
    ('m-hj-jumpoff-reinstates-retired', ['C02', 'C03'], 'violation', [(HJ,
        "                    if j.has_retired:\n                        j.rank_group = 1\n                    else:",
        "                    if j.has_retired and j.highest_cleared_index < 0:\n                        j.rank_group = 1\n                    else:")]),
    ('m-hj-refused-trial-pads-card', ['C02'], 'violation', [(HJ,
        "        if self.eliminated or self.dismissed:\n            what = 'retiring' if self.has_retired else 'being eliminated' if self.eliminated else 'passing'\n            raise RuleViolation(\"Cannot %s after %s\" % (label,what))\n        atts = self.attempts_by_height\n        # they may have skipped some, pas with empty strings\n        while len(atts) < height_count:\n            atts.append('')\n",
        "        atts = self.attempts_by_height\n        # they may have skipped some, pas with empty strings\n        while len(atts) < height_count:\n            atts.append('')\n        if self.eliminated or self.dismissed:\n            what = 'retiring' if self.has_retired else 'being eliminated' if self.eliminated else 'passing'\n            raise RuleViolation(\"Cannot %s after %s\" % (label,what))\n")]),
    ('m-sportshall-db-published-before-load', ['C16'], 'violation', [(SP,
        "    if not _DB:\n        _DB = load_data()\n",
        "    if _DB is None:\n        _DB = {}\n        _DB.update(load_data())\n")]),
    ('m-athlon-shared-module-level-grader', ['C16'], 'violation', [(AS,
        "    ag = AthlonsAgeGrader()\n    if not age:", "    ag = _shared_grader\n    if not age:"),
        (AS, "# Lazily evaluated dictionary to map from scoring key to parameters\n",
         "_shared_grader = AthlonsAgeGrader()\n# Lazily evaluated dictionary to map from scoring key to parameters\n"),
        ('athlib/wma/agegrader.py', "        fac = table[fx][ax1]\n        return fac", "        self._fx, self._ax1 = fx, ax1\n        fac = table[self._fx][self._ax1]\n        return fac")]),
    # (the textual reverse of the F4 commit no longer applies after the F6 repair rewrote the same lines)
    ('rev-F4-cached-false-to-expect-failure', ['C19'], 'violation', [
        (UT, "    cached = _schema_valid_cache.get(t)  # one read: another thread may evict t at any moment\n    if cached is not None and (cached or not expect_failure):",
             "    cached = _schema_valid_cache.get(t)  # one read: another thread may evict t at any moment\n    if cached is not None:"),
        (UT, "    cached = _valid_against_schema_cache.get(t)  # one read: another thread may evict t at any moment\n    if cached is not None and (cached or not expect_failure):",
             "    cached = _valid_against_schema_cache.get(t)  # one read: another thread may evict t at any moment\n    if cached is not None:")]),
    ('m-schema-cache-key-without-validator', ['C19'], 'violation', [(UT,
        "    t = (schema_file,validator)\n", "    t = (schema_file,)\n")]),
    ('m-valid-cache-key-without-schema', ['C19'], 'violation', [(UT,
        "    t = (json_file,schema_file)\n", "    t = (json_file,)\n")]),
    ('m-schema-resolver-not-installed', ['C19'], 'violation', [(UT,
        "jsonschema.validators.RefResolver = LocalFileResolver\n", "# jsonschema.validators.RefResolver = LocalFileResolver\n")]),
    # (second build session) a test and the use of what it tested on ONE source line: no window at any line
    # boundary, only a pre-emption inside the line (sys.monitoring instruction events) shows it
    ('m-valid-cache-check-then-index-on-one-line', ['C16'], 'violation', [(UT,
        "    cached = _valid_against_schema_cache.get(t)  # one read: another thread may evict t at any moment\n    if cached is not None and (cached or not expect_failure):\n        # a remembered failure must still raise when the caller expects the failure\n        return cached\n",
        "    if t in _valid_against_schema_cache and (_valid_against_schema_cache[t] or not expect_failure): return _valid_against_schema_cache[t]\n")]),
    # state shared between competition objects: a module-level memo of the ranking key, keyed by bib and
    # card - right within one competition (the heights are fixed), stale for the next one in the process
    ('m-hj-ranking-key-memo-shared-between-competitions', ['C03', 'C02'], 'violation', [(HJ,
        "    @property\n    def ranking_key(self) -> Tuple[int, Decimal, int, int]:\n        \"\"\"Return a sort key to determine who is winning\"\"\"\n        x = self.highest_cleared_index\n",
        "    @property\n    def ranking_key(self) -> Tuple[int, Decimal, int, int]:\n        \"\"\"Return a sort key to determine who is winning\"\"\"\n        mk = (self.bib, self.eliminated, tuple(self.attempts_by_height))\n        if mk not in _KEY_MEMO:\n            _KEY_MEMO[mk] = self._ranking_key()\n        return _KEY_MEMO[mk]\n\n    def _ranking_key(self):\n        x = self.highest_cleared_index\n"),
        (HJ, "class Jumper(object):\n", "_KEY_MEMO = {}\n\nclass Jumper(object):\n")]),
    # ---- negative controls ----
    ('nc-lock-around-cache-insert', ['C16', 'C19'], 'silent', [(UT,
        "R = TypeVar('R')\ndef _add_to_cache(c: Dict[R, T], t: R, v: T, maxlen: int = 20) -> T:\n    while len(c) >= maxlen:\n        c.popitem()     # drops the most recent entry, as before, without iterating a shared dict\n    c[t] = v\n    return v\n",
        "import threading\n_cache_lock = threading.Lock()\nR = TypeVar('R')\ndef _add_to_cache(c: Dict[R, T], t: R, v: T, maxlen: int = 20) -> T:\n    with _cache_lock:\n        while len(c) >= maxlen:\n            c.popitem()\n        c[t] = v\n    return v\n")]),
    ('nc-lock-around-hungarian-table-build', ['C16'], 'silent', [(HU,
        "_table = None\ndef get_lookup_table():\n    global _table\n    if _table is None:\n",
        "import threading\n_table_lock = threading.Lock()\n_table = None\ndef get_lookup_table():\n    global _table\n    with _table_lock:\n      if _table is None:\n")]),
    ('nc-athlon-map-built-at-import', ['C16'], 'silent', [(AS,
        "def score(gender: str, event_code: str, value: Union[float, int], age: str = None, esaa: bool = False) -> Optional[int]:",
        "_scoring_objects_create()\n\n\ndef score(gender: str, event_code: str, value: Union[float, int], age: str = None, esaa: bool = False) -> Optional[int]:")]),
    ('nc-from-matrix-athlete-by-athlete', ['C08'], 'silent', [(HJ,
        "            for a in _012:\n                for d in dikts:\n                    if d['order'] in ('DNS','DQ'): continue\n",
        "            for d in dikts:\n                for a in _012:\n                    if d['order'] in ('DNS','DQ'): continue\n")]),
    ('nc-ranked-jumpers-tie-order-reversed', ['C02', 'C03', 'C08'], 'silent', [(HJ,
        "rankj.sort(key=lambda j: (jokey(j), j._old_pos))", "rankj.sort(key=lambda j: (jokey(j), -j._old_pos))")]),
    ('nc-unbounded-validation-caches', ['C16', 'C19'], 'silent', [(UT,
        "    while len(c) >= maxlen:\n        c.popitem()     # drops the most recent entry, as before, without iterating a shared dict\n",
        "")]),
    # FIFO eviction is a fine policy (C19: silent).  Written as c.pop(next(iter(c))) it was ALSO listed as a C16
    # control until pre-emption inside a line existed: a switch between iter(c) and next() while another thread
    # inserts raises 'dictionary changed size during iteration' - a real race (CPython checks for a switch
    # after every call), invisible at line granularity.  So: a control for C19, a mutant for C16.
    ('nc-fifo-eviction', ['C19'], 'silent', [(UT,
        "        c.popitem()     # drops the most recent entry, as before, without iterating a shared dict\n",
        "        c.pop(next(iter(c)), None)\n")]),
    ('m-fifo-eviction-iter-then-next-on-one-line', ['C16'], 'violation', [(UT,
        "        c.popitem()     # drops the most recent entry, as before, without iterating a shared dict\n",
        "        c.pop(next(iter(c)), None)\n")]),
    # a builder that claims the work with a non-blocking lock while late-comers poll with time.sleep(): correct,
    # but a simulator that lets the baton holder sleep for real (everybody else parked) would spin to the step cap
    ('nc-sportshall-one-builder-others-poll-with-sleep', ['C16'], 'silent', [(SP,
        "from decimal import Decimal\nfrom math import floor, ceil\n",
        "import time, threading\nfrom decimal import Decimal\nfrom math import floor, ceil\n"),
        (SP, "_DB = None\n\ndef sportshall_score(",
             "_DB = None\n_DB_CLAIM = threading.Lock()\n\ndef _db():\n    global _DB\n    while not _DB:\n        if _DB_CLAIM.acquire(False):\n            try:\n                if not _DB:\n                    _DB = load_data()\n            finally:\n                _DB_CLAIM.release()\n        else:\n            time.sleep(0.005)   # somebody else is loading\n    return _DB\n\ndef sportshall_score("),
        (SP, "    global _DB # initialize on first call\n    if not _DB:\n        _DB = load_data()\n", "    _DB = _db() # initialize on first call\n")]),
    ('nc-explicit-state-rank-table', ['C02', 'C03', 'C08'], 'silent', [(HJ,
        "        if self.state!='scheduled':\n            raise RuleViolation(\"Cannot add jumpers in competition state %r\" % self.state)",
        "        if self.state in ('started','jumpoff','won','finished','drawn'):\n            raise RuleViolation(\"Cannot add jumpers in competition state %r\" % self.state)")]),
]


def sh(*cmd, **kw):
    return subprocess.run(cmd, capture_output=True, text=True, **kw)


def main():
    os.makedirs(OUT, exist_ok=True)
    for f in os.listdir(OUT):
        os.remove(os.path.join(OUT, f))
    log = sh('git', '-C', REPO, 'log', '--format=%H %s').stdout.splitlines()
    for name, subj, checks in REVERSE:
        c = [l.split()[0] for l in log if l.split(' ', 1)[1].startswith(subj)]
        if not c:
            print('no commit for', name); continue
        d = sh('git', '-C', REPO, 'diff', c[0], c[0] + '^', '--', 'athlib').stdout
        open(os.path.join(OUT, name + '.patch'), 'w').write(d)
        json.dump({'checks': checks, 'expect': 'violation', 'kind': 'reverse of fix commit ' + c[0][:7]},
                  open(os.path.join(OUT, name + '.json'), 'w'), indent=1)
    for name, checks, expect, edits in EDITS:
        files = {}
        ok = True
        for f, old, new in edits:
            src = files.get(f) or open(os.path.join(REPO, f)).read()
            if src.count(old) != 1:
                print('EDIT DOES NOT MATCH (%d times): %s %s' % (src.count(old), name, f)); ok = False; break
            files[f] = src.replace(old, new)
        if not ok:
            continue
        d = ''
        for f, new in files.items():
            a = open(os.path.join(REPO, f)).read().splitlines(True)
            d += ''.join(difflib.unified_diff(a, new.splitlines(True), 'a/' + f, 'b/' + f))
        open(os.path.join(OUT, name + '.patch'), 'w').write(d)
        json.dump({'checks': checks, 'expect': expect, 'kind': 'negative control' if expect == 'silent' else 'hand-written mutant'},
                  open(os.path.join(OUT, name + '.json'), 'w'), indent=1)
    print(len(os.listdir(OUT)) // 2, 'mutants written')


if __name__ == '__main__':
    main()

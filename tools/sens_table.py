#!/venv/bin/python
"""Prints the markdown table of DESIGN.md 10.5 from selftest/sensitivity-report.json and seeded/*/meta.json."""
import json, os, glob
V = os.path.dirname(os.path.dirname(os.path.abspath(__file__)))
rep = json.load(open(os.path.join(V, 'selftest', 'sensitivity-report.json')))
def row(k, v, what):
    ch = v.get('checks', {})
    caught = [c for c, x in sorted(ch.items()) if x['exit'] == 1 and x['violations']]
    silent = [c for c, x in sorted(ch.items()) if x['exit'] == 0]
    sick = [c for c, x in sorted(ch.items()) if x['exit'] not in (0, 1)]
    cls = []
    for c in caught:
        cls += ['%s: %s' % (c, ch[c]['classes'][0])] if ch[c]['classes'] else []
    suite = 'same' if v.get('suite_same_as_baseline') else 'FAILS'
    ng = v.get('no_git_copy_run')
    extra = ''
    if ng and ng.get('verdict') != v.get('verdict'):
        extra = ' (%s without git metadata)' % ng.get('verdict')
    return '| %s | %s | %s | %s | %s | %s |' % (k.split('/', 1)[1], what, suite, ', '.join(caught) or '-',
                                             ', '.join(silent) or '-', v.get('verdict', '?') + extra + (' (harness error in %s)' % ','.join(sick) if sick else ''))
print('| change | what it is | suite | caught by | silent | verdict |')
print('|---|---|---|---|---|---|')
for k in sorted(rep):
    if not k.startswith('seeded/'):
        continue
    mf = os.path.join(V, k, 'meta.json')
    what = json.load(open(mf)).get('change', '') if os.path.exists(mf) else ''
    print(row(k, rep[k], what))
print()
print('| mutant / control | kind | suite | caught by | silent | verdict |')
print('|---|---|---|---|---|---|')
for k in sorted(rep):
    if not k.startswith('mutants/'):
        continue
    mf = os.path.join(V, k + '.json')
    kind = json.load(open(mf)).get('kind', '') if os.path.exists(mf) else '(removed)'
    print(row(k, rep[k], kind))

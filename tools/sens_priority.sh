#!/bin/sh
# sensitivity self-test in priority order: controls first (false alarms), then the newest seeded changes
# and mutants, then the thinly caught ones, then everything else.  Usage: tools/sens_priority.sh [rest]
cd "$(dirname "$0")/.." || exit 2
for k in NC- PERM- mutants/nc- g-v c16k c16l c19f m-valid-cache-check m-hj-ranking-key-memo c16d-v1 c16e-v1 c16f-v; do
  /venv/bin/python selftest/sensitivity.py --only "$k"
done
if [ "$1" = rest ]; then
  for k in mutants/m- mutants/rev- seeded/C19 seeded/C16 seeded/C08 seeded/C03 seeded/C02; do
    /venv/bin/python selftest/sensitivity.py --only "$k"
  done
fi

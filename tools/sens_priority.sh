#!/bin/sh
# sensitivity self-test in priority order (each --only pass merges its entries into selftest/sensitivity-report.json).
# Usage: tools/sens_priority.sh [new|controls|rest]...   (default: new controls)
cd "$(dirname "$0")/.." || exit 2
[ $# -eq 0 ] && set -- new controls
for part in "$@"; do
  case $part in
    new)      keys="h-v c16m c19g NC-nc9 NC-nc7b-r1 NC-refthr NC-refsch-r1 mutants/nc-lock fifo c03g c08g c16k c16l c19f m-valid-cache-check m-hj-ranking-key-memo c16d-v1 c16e-v1 c16f-v c02g" ;;
    controls) keys="NC- PERM- mutants/nc-" ;;
    rest)     keys="mutants/m- mutants/rev- seeded/C19 seeded/C16 seeded/C08 seeded/C03 seeded/C02" ;;
    *)        keys="$part" ;;
  esac
  for k in $keys; do /venv/bin/python selftest/sensitivity.py --only "$k"; done
done

#!/venv/bin/python
"""Entry point of the athlib simulation checks.

  run_check.py <C02|C03|C08|C16|C19> [--tier quick|thorough]
  run_check.py --replay <file>

exit 0: property held on everything explored   (KNOWN-FINDING lines allowed)
exit 1: VIOLATION property=<id> replay=<path>  printed for each distinct violation class
exit 2: HARNESS-ERROR (the simulator itself is sick; never a pass, never a finding)
"""
import os, sys, json, traceback

sys.path.insert(0, os.path.dirname(os.path.abspath(__file__)))
from simkit import common


def engine_for(prop):
    if prop == 'C16':
        from simkit import thrsim
        return thrsim
    if prop in ('C02', 'C03', 'C08'):
        from simkit import hjsim
        return hjsim
    if prop == 'C19':
        from simkit import schemasim
        return schemasim
    raise SystemExit('unknown property %r' % prop)


def main(argv):
    common.ensure_env()
    if len(argv) >= 2 and argv[0] == '--replay':
        rp = common.load_replay(argv[1])
        eng = engine_for(rp['property'])
        return eng.replay(argv[1])
    if argv and argv[0] == '--det-fingerprint':
        # internal: used by the determinism self-test from a fresh interpreter with another hash seed
        prop, master, idxs, k = argv[1], int(argv[2]), [int(x) for x in argv[3].split(',')], int(argv[4])
        eng = engine_for(prop)
        print(json.dumps(eng.det_fingerprints(prop, master, idxs, k)))
        return 0
    if len(argv) >= 2 and argv[0] == '--hj-ops':
        from simkit import hjsim
        return hjsim.ops_main(argv[1])
    if len(argv) >= 5 and argv[0] == '--hj-sequence':
        from simkit import hjsim
        return hjsim.sequence_main(argv[1], argv[2], int(argv[3]), [int(x) for x in argv[4].split(',')])
    if len(argv) >= 2 and argv[0] == '--c19-fresh':
        from simkit import schemasim
        return schemasim.fresh_one(argv[1])
    if not argv:
        print(__doc__)
        return 2
    prop = argv[0]
    t = common.tier()
    if '--tier' in argv:
        t = argv[argv.index('--tier') + 1]
    eng = engine_for(prop)
    if prop == 'C16' or prop == 'C19':
        return eng.main(t)
    return eng.main(prop, t)


if __name__ == '__main__':
    try:
        rc = main(sys.argv[1:])
    except common.HarnessError as e:
        print('HARNESS-ERROR %s' % e)
        rc = 2
    except SystemExit:
        raise
    except BaseException:
        traceback.print_exc()
        print('HARNESS-ERROR unexpected exception in the harness')
        rc = 2
    sys.stdout.flush()
    sys.exit(rc)

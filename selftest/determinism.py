#!/venv/bin/python
"""Whole-batch determinism self-test (not a registered check).

For each check and each of several VERIF_SEED values the (reduced) batch is executed three times:
16 workers, 5 workers, and 16 workers under another PYTHONHASHSEED in a fresh interpreter.  The
evidence key `all_runs_digest` (an order-independent sum over the digests of *every* run of the
batch: event log, outcomes, switch list / op trace) must be identical, as must the counters.

  determinism.py [--seeds 1,2,3,4] [--checks C02,C16]   -> selftest/determinism-report.json
"""
import os, sys, json, subprocess, tempfile, shutil, time

VERIF = os.path.dirname(os.path.dirname(os.path.abspath(__file__)))
SIZES = {'C02': {'VERIF_RUNS': '30000'}, 'C03': {'VERIF_RUNS': '30000'}, 'C08': {'VERIF_RUNS': '12000'},
         'C16': {'VERIF_SCENARIOS': '240'}, 'C19': {'VERIF_RUNS': '1500'}}


SNAP = [VERIF]


def snapshot_code():
    """Run the checks from a private copy of the framework (editing /verif during a long self-test
    must not mix two versions of the code inside one comparison)."""
    snap = tempfile.mkdtemp(prefix='athlib-verif-snap-')
    for name in ('run_check.py', 'simkit', 'corpus', 'KNOWN_FINDINGS.txt'):
        src = os.path.join(VERIF, name)
        if os.path.isdir(src):
            shutil.copytree(src, os.path.join(snap, name), ignore=shutil.ignore_patterns('__pycache__'))
        elif os.path.exists(src):
            shutil.copy(src, os.path.join(snap, name))
    SNAP[0] = snap
    return snap


def run(chk, seed, workers, hashseed, out):
    env = dict(os.environ, VERIF_SEED=str(seed), VERIF_WORKERS=str(workers), VERIF_OUT=out, PYTHONDONTWRITEBYTECODE='1')
    env.update(SIZES[chk])
    env.pop('PYTHONHASHSEED', None)
    if hashseed is not None:
        env['VERIF_HASHSEED'] = str(hashseed)
    else:
        env.pop('VERIF_HASHSEED', None)
    p = subprocess.run(['/venv/bin/python', os.path.join(SNAP[0], 'run_check.py'), chk, '--tier', 'quick'], cwd=SNAP[0],
                       env=env, capture_output=True, text=True, timeout=3600)
    ev = json.load(open(os.path.join(out, 'evidence', chk + '.json')))
    c = ev['coverage']
    return {'exit': p.returncode, 'digest': c['all_runs_digest'], 'evaluations': c['evaluations'],
            'distinct_nontrivial': c['distinct_nontrivial'], 'logical_steps': c['logical_steps']}


def main():
    a = sys.argv[1:]
    seeds = [int(x) for x in (a[a.index('--seeds') + 1] if '--seeds' in a else '1,2,3,4').split(',')]
    checks = (a[a.index('--checks') + 1] if '--checks' in a else 'C02,C03,C08,C16,C19').split(',')
    rep = {}
    bad = 0
    snap = snapshot_code()
    rp = os.path.join(VERIF, 'selftest', 'determinism-report.json')
    if os.path.exists(rp) and '--fresh' not in a:
        rep = json.load(open(rp))
    for chk in checks:
        for seed in seeds:
            scratch = tempfile.mkdtemp(prefix='athlib-verif-det-')
            try:
                r = [run(chk, seed, 16, None, scratch), run(chk, seed, 5, None, scratch), run(chk, seed, 16, 98765, scratch)]
            finally:
                shutil.rmtree(scratch, ignore_errors=True)
            same = all(x == r[0] for x in r)
            bad += not same
            rep['%s seed=%d' % (chk, seed)] = {'identical': same, 'runs': r}
            print('%s seed=%d identical=%s digest=%s evaluations=%d' % (chk, seed, same, r[0]['digest'], r[0]['evaluations']), flush=True)
    shutil.rmtree(snap, ignore_errors=True)
    rep['when'] = time.strftime('%Y-%m-%d %H:%M:%S')
    json.dump(rep, open(rp, 'w'), indent=1, sort_keys=True)
    return 1 if bad else 0


if __name__ == '__main__':
    sys.exit(main())

#!/venv/bin/python
"""Sensitivity self-test (not a registered check).

For every patch under /verif/seeded/<id>/patch.diff and /verif/mutants/*.patch:
  copy /repo's working tree to a scratch directory outside /repo and /verif, apply the patch,
  run the pinned test suite there (must still be 92 passed / the same 3 failures), run the check(s)
  named in meta.json (or all five) with VERIF_REPO pointing at the copy, and record whether a
  VIOLATION was reported.  Negative controls (meta "expect": "silent") must stay silent.
The copy, its __pycache__ and the scratch evidence/replays are removed afterwards.

  sensitivity.py [--only <id-substring>] [--tier quick] [--checks C02,C16] [--mode worktree|copy]
  (mode worktree, the default: scratch git worktree with the patch applied uncommitted, as with
   `git -C /repo apply`; mode copy: plain copy without git metadata, so no change-aware budget)
writes /verif/selftest/sensitivity-report.json
"""
import os, sys, json, glob, shutil, subprocess, tempfile, time

VERIF = os.path.dirname(os.path.dirname(os.path.abspath(__file__)))
REPO = '/repo'
PY = '/venv/bin/python'
ALL = ['C02', 'C03', 'C08', 'C16', 'C19']


def sh(cmd, cwd=None, env=None, timeout=3600):
    p = subprocess.run(cmd, cwd=cwd, env=env, capture_output=True, text=True, timeout=timeout)
    return p.returncode, p.stdout + p.stderr


def cases():
    out = []
    for d in sorted(glob.glob(os.path.join(VERIF, 'seeded', '*'))):
        pf = os.path.join(d, 'patch.diff')
        mf = os.path.join(d, 'meta.json')
        if os.path.exists(pf):
            meta = json.load(open(mf)) if os.path.exists(mf) else {}
            out.append({'id': 'seeded/' + os.path.basename(d), 'patch': pf, 'checks': meta.get('checks') or [meta.get('property')] if meta.get('property') else ALL,
                        'expect': meta.get('expect', 'violation'),
                        'demo': os.path.join(d, meta['demo']) if meta.get('demo', 'demo.py') and meta.get('demo') else
                                (os.path.join(d, 'demo.py') if 'demo' not in meta else None)})
    for pf in sorted(glob.glob(os.path.join(VERIF, 'mutants', '*.patch'))):
        mf = pf[:-6] + '.json'
        meta = json.load(open(mf)) if os.path.exists(mf) else {}
        out.append({'id': 'mutants/' + os.path.basename(pf)[:-6], 'patch': pf, 'checks': meta.get('checks', ALL),
                    'expect': meta.get('expect', 'violation'), 'demo': None})
    return out


def suite(copy):
    rc, out = sh([PY, '-m', 'pytest', '-q', '-p', 'no:cacheprovider', '--timeout=900', '-x', '--co', '-q'], cwd=copy)
    rc, out = sh([PY, '-m', 'pytest', '-q', '-p', 'no:cacheprovider', '--timeout=900'], cwd=copy,
                 env=dict(os.environ, PYTHONDONTWRITEBYTECODE='1'))
    tail = out.strip().splitlines()[-1] if out.strip() else ''
    failed = sorted(l.split()[1] for l in out.splitlines() if l.startswith('FAILED '))
    return tail, failed


BASE_FAILS = ['tests/test_hungarian_score.py::HunTest::test_scores', 'tests/test_hungarian_score.py::HunTest::test_table_lookup',
              'tests/test_import_at_top_level.py::ImportTest::test_fake_signatures']


MODE = 'worktree'


def main():
    global MODE
    args = sys.argv[1:]
    if '--mode' in args:
        MODE = args[args.index('--mode') + 1]
    only = args[args.index('--only') + 1] if '--only' in args else None
    tier = args[args.index('--tier') + 1] if '--tier' in args else 'quick'
    forced = args[args.index('--checks') + 1].split(',') if '--checks' in args else None
    # run the checks from a private snapshot of the framework, so that editing /verif while a long
    # sensitivity run is in progress cannot mix two versions of the code inside one check
    snap = tempfile.mkdtemp(prefix='athlib-verif-snap-')
    for name in ('run_check.py', 'simkit', 'corpus', 'KNOWN_FINDINGS.txt'):
        src = os.path.join(VERIF, name)
        if os.path.isdir(src):
            shutil.copytree(src, os.path.join(snap, name), ignore=shutil.ignore_patterns('__pycache__'))
        elif os.path.exists(src):
            shutil.copy(src, os.path.join(snap, name))
    try:
        return _main(only, tier, forced, snap)
    finally:
        shutil.rmtree(snap, ignore_errors=True)


def _main(only, tier, forced, snap):
    report_path = os.path.join(VERIF, 'selftest', 'sensitivity-report.json')
    report = json.load(open(report_path)) if os.path.exists(report_path) else {}
    for case in cases():
        if only and only not in case['id']:
            continue
        scratch = tempfile.mkdtemp(prefix='athlib-verif-sens-')
        copy = os.path.join(scratch, 'repo')
        out = os.path.join(scratch, 'out')
        try:
            if MODE == 'copy':
                # a plain copy without git metadata: the checks get no hint about what changed
                shutil.copytree(REPO, copy, ignore=shutil.ignore_patterns('.git', '__pycache__', 'sampledata', 'node_modules'))
                rc, o = sh(['patch', '-p1', '--no-backup-if-mismatch', '-i', case['patch']], cwd=copy)
            else:
                # a scratch git worktree with the patch applied but not committed - the situation of
                # `git -C /repo apply <file>`; C16's change-aware budget sees the difference
                rc, o = sh(['git', '-C', REPO, 'worktree', 'add', '--detach', copy, 'HEAD'])
                if rc == 0:
                    rc, o = sh(['git', 'apply', case['patch']], cwd=copy)
            entry = {'patch_applied': rc == 0, 'expect': case['expect'], 'tier': tier, 'mode': MODE,
                     'when': time.strftime('%Y-%m-%d %H:%M:%S')}
            prev = report.get(case['id'], {})
            if MODE != 'copy' and prev.get('mode', 'copy') == 'copy' and prev.get('checks'):
                entry['no_git_copy_run'] = {'verdict': prev.get('verdict'), 'checks': {c: {'exit': x['exit'], 'violations': x['violations']}
                                                                                      for c, x in prev['checks'].items()}}
            elif prev.get('no_git_copy_run'):
                entry['no_git_copy_run'] = prev['no_git_copy_run']
            if rc != 0:
                entry['error'] = o[-400:]
                report[case['id']] = entry
                print('%-40s PATCH DOES NOT APPLY' % case['id']); continue
            tail, failed = suite(copy)
            entry['suite'] = tail
            entry['suite_same_as_baseline'] = (failed == BASE_FAILS and '92 passed' in tail)
            if case['demo'] and os.path.exists(case['demo']):
                rc, o = sh([PY, case['demo']], cwd=copy, env=dict(os.environ, PYTHONPATH=copy, PYTHONDONTWRITEBYTECODE='1'), timeout=600)
                entry['demo_fails_with_patch'] = rc != 0
                rc0, o0 = sh([PY, case['demo']], cwd=REPO, env=dict(os.environ, PYTHONPATH=REPO, PYTHONDONTWRITEBYTECODE='1'), timeout=600)
                entry['demo_passes_without_patch'] = rc0 == 0
            results = {}
            for chk in (forced or case['checks']):
                t0 = time.time()
                env = dict(os.environ, VERIF_REPO=copy, VERIF_OUT=out, VERIF_TIER=tier)
                rc, o = sh([PY, os.path.join(snap, 'run_check.py'), chk, '--tier', tier], cwd=snap, env=env, timeout=4 * 3600)
                vl = [l for l in o.splitlines() if l.startswith('VIOLATION')]
                classes = []
                for l in vl:
                    try:
                        rp = json.load(open(l.split('replay=')[1].strip()))
                        classes.append(rp['violation']['class'])
                    except Exception:
                        pass
                results[chk] = {'exit': rc, 'violations': len(vl), 'classes': classes, 'wall_s': round(time.time() - t0, 1),
                                'harness_error': [l for l in o.splitlines() if l.startswith('HARNESS-ERROR')][:2]}
            entry['checks'] = results
            caught = any(r['exit'] == 1 and r['violations'] for r in results.values())
            sick = any(r['exit'] not in (0, 1) for r in results.values())
            entry['caught'] = caught
            entry['verdict'] = ('HARNESS-ERROR' if sick else
                                ('ok' if caught == (case['expect'] == 'violation') else
                                 ('MISSED' if case['expect'] == 'violation' else 'FALSE-ALARM')))
            report[case['id']] = entry
            print('%-40s suite_ok=%s demo=%s/%s %s %s' % (case['id'], entry['suite_same_as_baseline'],
                                               entry.get('demo_fails_with_patch'), entry.get('demo_passes_without_patch'), entry['verdict'],
                                               {k: (v['exit'], v['classes'][:3]) for k, v in results.items()}), flush=True)
        finally:
            if MODE != 'copy':
                sh(['git', '-C', REPO, 'worktree', 'remove', '--force', copy])
                sh(['git', '-C', REPO, 'worktree', 'prune'])
            shutil.rmtree(scratch, ignore_errors=True)
        with open(report_path, 'w') as f:
            json.dump(report, f, indent=1, sort_keys=True)
            f.write('\n')
    return 0


if __name__ == '__main__':
    sys.exit(main())

"""Engine hjsim (C02, C03, C08): a HighJumpCompetition driven by simulated officials, athletes,
a heckler (rule-violating requests), a crash injector (rebuild from log / card) and a re-scheduler
(same history, other jumping order), against the reference model of hjmodel.py.
See DESIGN.md section 4.

Trace ops:  ('add', bib) ('bar', 'H.HH') ('o'|'x'|'-'|'r', bib)
            ('crash_log',) ('crash_card',) ('resched', kind, seed)
            ('co', <op>...) a call on ANOTHER competition object of the same process (the pole vault at the
            same meeting), ('co_new',) that other competition is replaced by a fresh one
"""
import os, sys, re, time, json, copy, random, hashlib
from decimal import Decimal

from . import common
from .common import Counter, HarnessError
from .hjmodel import (Model, RANK, METHOD, TRIALS, D0, countback_keys, competition_places,
                      valid_competition_ranking, snapshot, snap_diff, strip_cards)

BIBS = ['A', 'B', 'C', 'D']


class Violation(Exception):
    def __init__(self, cls, detail):
        Exception.__init__(self, cls)
        self.cls = cls
        self.detail = detail


class Abandon(Exception):
    """The model lost track of the implementation in a check that does not judge legality."""


class Stop(Exception):
    """Nothing more to explore in this run (e.g. a case the rule text leaves open)."""


def do(c, op, opts=()):
    k = op[0]
    if k == 'add':
        c.add_jumper(bib=op[1])
    elif k == 'bar':
        # ('opt', 'float-heights') earlier in the trace: the officials of this meeting give heights as floats
        # (the library's own from_actions test does) - 2.01 is still higher than 2.00
        c.set_bar_height(float(op[1]) if 'float-heights' in opts else Decimal(op[1]))
    else:
        getattr(c, METHOD[k])(op[1])


def log_entry(op):
    k = op[0]
    if k == 'add':
        return ('add_jumper', (('bib', op[1]),))
    if k == 'bar':
        return ('set_bar_height', Decimal(op[1]))
    return (METHOD[k], op[1])


def logged_once(before, after, op):
    """The log grew by exactly one entry naming this call (an add may record more keyword arguments
    than the bib it was given, e.g. defaults - only the bib is compared)."""
    if len(after) != len(before) + 1 or after[:-1] != before:
        return False
    want = log_entry(op)
    got = after[-1]
    if got[0] != want[0]:
        return False
    if op[0] == 'add':
        return isinstance(got[1], tuple) and ('bib', op[1]) in got[1]
    if op[0] == 'bar' and isinstance(got[1], float):
        return '%.2f' % got[1] == '%.2f' % float(op[1])
    return got[1] == want[1]


_raw_snapshot = snapshot


def snapshot(c):
    """The observables must at least be *readable*: a public attribute that raises (or has vanished) is
    reported as a violation of whatever property is being checked, not as a harness error."""
    try:
        return _raw_snapshot(c)
    except Exception as e:
        raise Violation('observables-unreadable:%s' % type(e).__name__, {'error': '%s: %s' % (type(e).__name__, e)})


class Executor(object):
    """Executes explicit ops against the real HighJumpCompetition with the oracles of one check."""

    def __init__(self, athlib, check, stats=None):
        self.athlib = athlib
        self.HJ = athlib.HighJumpCompetition
        self.RV = athlib.RuleViolation
        self.check = check
        self.c = self.HJ()
        self.m = Model()
        self.trace = []
        self.accepted = []          # accepted ops, in order
        self.shadows = []           # replicas rebuilt from the log, kept in lock step (C08)
        self.st = stats if stats is not None else Counter()
        self.h = hashlib.sha256()   # event digest
        self.hist_flags = set()
        self.states_seen = set()
        self.terminal_seen = False
        self.tb_levels = set()
        self.co = None              # the other competition of the meeting (isolation between instances)
        self.opts = set()           # ('opt', name) ops seen so far, e.g. 'float-heights'
        self.float_ok = False

    # ---- the other competition ---------------------------------------------------------------
    def co_step(self, op):
        """A call on another competition object living in the same process.  Nothing about *this*
        competition (nor about the replicas recovered from its log) may change."""
        c = self.c
        if op[0] == 'co_new' or self.co is None:
            self.co = self.HJ()
            if op[0] == 'co_new':
                self._ev('co_new')
                return None
        before = snapshot(c)
        sh_before = [snapshot(r) for r in self.shadows]
        try:
            do(self.co, tuple(op[1:]))
            res = 'accepted'
        except self.RV:
            res = 'refused'
        except Exception as e:
            res = 'raised:%s' % type(e).__name__
        self._ev('co', tuple(op[1:]), res)
        self.st.inc('fault:call-on-another-competition-of-the-same-process')
        after = snapshot(c)
        if after != before:
            raise Violation('call-on-another-competition-changed-this-one:' + '+'.join(snap_diff(before, after)),
                            {'op': op, 'changed': snap_diff(before, after), 'before': repr(before)[:600],
                             'after': repr(after)[:600]})
        for r, b in zip(self.shadows, sh_before):
            if snapshot(r) != b:
                raise Violation('call-on-another-competition-changed-a-recovered-replica', {'op': op})
        self.hist_flags.add('co')
        return None

    # ---- helpers -------------------------------------------------------------------------
    def _ev(self, *parts):
        self.h.update(repr(parts).encode())

    def places(self):
        try:
            return {j.bib: j.place for j in self.c.jumpers}
        except Exception as e:
            raise Violation('observables-unreadable:%s' % type(e).__name__, {'error': '%s: %s' % (type(e).__name__, e)})

    def impl_cards(self):
        try:
            return {j.bib: list(j.attempts_by_height) for j in self.c.jumpers}
        except Exception as e:
            raise Violation('observables-unreadable:%s' % type(e).__name__, {'error': '%s: %s' % (type(e).__name__, e)})

    def known(self, op):
        return op[0] in ('add', 'bar') or op[1] in self.m.ath

    # ---- one call ------------------------------------------------------------------------
    def step(self, op):
        op = tuple(op)
        k = op[0]
        if k == 'crash_log':
            self.trace.append(op); return self.crash_log()
        if k == 'crash_card':
            self.trace.append(op); return self.crash_card()
        if k == 'resched':
            self.trace.append(op); return self.resched(op[1], op[2])
        if k in ('co', 'co_new'):
            self.trace.append(op); return self.co_step(op)
        if k == 'opt':
            self.trace.append(op); self.opts.add(op[1]); self._ev('opt', op[1]); return None
        if not self.known(op):
            return None             # (only while minimising: the add was dropped)
        self.trace.append(op)
        c, m, chk = self.c, self.m, self.check
        legal = m.legal(op)
        need_snap = chk == 'C02'
        before = snapshot(c) if need_snap else None
        exc = None
        try:
            do(c, op, self.opts)
            acc = True
        except self.RV as e:
            acc = False
        except Exception as e:      # any other exception type
            acc = False; exc = e
        if k == 'bar' and 'float-heights' in self.opts and not self.float_ok:
            # heights are annotated Decimal; a tree may insist on that.  Floats are only judged on a tree that
            # takes them: the first legal float bar must be accepted, else the run ends unjudged.
            if legal is True and not acc:
                self.st.inc('stop:float-heights-not-taken-by-this-tree')
                raise Stop('float heights not taken by this tree')
            if acc:
                self.float_ok = True
        after = snapshot(c) if (need_snap or self.shadows) else None
        self._ev(op, acc, c.state)
        kind = 'trial' if k in TRIALS else k
        self.st.inc('call:%s:%s:%s' % (m.phase, kind, 'accepted' if acc else 'refused'))
        if exc is not None:
            if chk == 'C02':
                raise Violation('wrong-exception:%s' % type(exc).__name__,
                                {'op': op, 'exception': '%s: %s' % (type(exc).__name__, exc)})
            raise Abandon('unexpected exception %r' % exc)
        if not acc:
            self.hist_flags.add('refused')
            self.st.inc('refused:' + (m.why_illegal(op) if legal is False else 'tolerated' if legal is None else 'LEGAL'))
            if chk == 'C02' and after != before:
                raise Violation('refusal-not-clean:' + '+'.join(snap_diff(before, after)),
                                {'op': op, 'changed': snap_diff(before, after),
                                 'before': repr(before)[:600], 'after': repr(after)[:600]})
        if legal is not None and acc != legal:
            if chk == 'C02':
                if acc:
                    raise Violation('illegal-call-accepted:' + m.why_illegal(op), {'op': op, 'phase': m.phase})
                raise Violation('legal-call-refused:%s:%s' % (m.phase, kind), {'op': op, 'phase': m.phase})
            raise Abandon('legality disagreement on %r (model %s, impl %s)' % (op, legal, acc))
        if legal is None:
            self.st.inc('tolerated:%s:%s' % (kind, 'accepted' if acc else 'refused'))
        # lock-step shadows (C08)
        if self.shadows:
            self.shadow_step(op, acc, after)
        if not acc:
            return False
        # ---- accepted ----
        if k in TRIALS:
            self.hist_flags.add('accepted-trial')
        if chk == 'C02':
            if not logged_once(before[3], after[3], op):
                raise Violation('accepted-call-not-logged-once', {'op': op, 'log_tail': repr(after[3][-3:])})
        prev = m.phase
        m.apply(op)
        self.accepted.append(op)
        if chk == 'C02':
            ic = self.impl_cards()
            for b, a in m.ath.items():
                if strip_trailing(ic[b]) != strip_trailing(a.cells):
                    raise Violation('card-differs-from-calls', {'op': op, 'bib': b, 'impl': ic[b], 'model': a.cells})
        self.after_accept(op, prev)
        self.states_seen.add(m.abstract_state())
        if chk == 'C03':
            self.check_bests(op)
            if c.state in ('finished', 'won', 'drawn'):
                self.check_terminal(op)
        if c.state in ('finished', 'drawn'):
            self.terminal_seen = True
        return True

    def after_accept(self, op, prev):
        c, m, chk = self.c, self.m, self.check
        S = c.state
        judge_state = chk == 'C02'
        judge_jo = chk in ('C02', 'C03')
        if S not in RANK:
            if judge_state:
                raise Violation('unknown-state', {'op': op, 'state': S})
            raise Abandon('unknown state')
        if judge_state:
            if RANK[S] < RANK[prev] or (RANK[S] == RANK[prev] and S != prev):
                raise Violation('state-moved-backwards:%s->%s' % (prev, S), {'op': op})
            if (S == 'scheduled') != (not m.heights):
                raise Violation('scheduled-iff-no-bar:%s' % S, {'op': op, 'heights': len(m.heights)})
        all_out = m.all_out() and bool(m.ath)
        if S != prev:
            self.st.inc('transition:%s->%s' % (prev, S))
            notout = [a for a in m.ath.values() if a.out == 'no']
            cur_cleared = lambda a: len(a.cells) == len(m.heights) and 'o' in a.cells[-1]
            bad = None
            if S == 'won':
                if not (len(notout) == 1 and cur_cleared(notout[0])):
                    bad = 'won-without-single-survivor-over-the-bar'
            elif S == 'finished':
                if not (all_out or (prev == 'jumpoff' and len(notout) == 1 and cur_cleared(notout[0]))):
                    bad = 'finished-while-athletes-can-still-jump'
            elif S == 'drawn':
                if not all_out:
                    bad = 'drawn-while-athletes-can-still-jump'
            elif S == 'jumpoff':
                if not all_out:
                    bad = 'jumpoff-while-athletes-can-still-jump'
            if bad and judge_state:
                raise Violation('bad-transition:' + bad, {'op': op, 'from': prev, 'to': S})
            if bad:
                # judged under C02 only; the other checks keep following the implementation's phase (the
                # terminal clauses of C03 still apply to whatever state it claims to have reached)
                self.st.inc('probe:questionable-transition-followed')
        m.phase = S
        if (chk == 'C03' and S == 'jumpoff' and prev == 'jumpoff' and m.jo_wf and not m.follow_only
                and m.round_in and op[0] in TRIALS):
            # bounded liveness, second clause: a jump-off round in which every participant has attempted
            # or retired, exactly one cleared and all the others went out, has produced the survivor
            col = len(m.heights) - 1
            cells = [(b, (m.ath[b].cells[col] if len(m.ath[b].cells) > col else '')) for b in m.round_in]
            if all(any(x in cell for x in 'oxr') for b, cell in cells):
                clr = [b for b, cell in cells if 'o' in cell]
                notout = [b for b, a in m.ath.items() if a.out == 'no']
                if len(clr) == 1 and notout == clr:
                    raise Violation('undecided-after-decisive-jumpoff-round', {'op': op, 'round': dict(cells), 'state': S})
        if all_out and m.heights:
            if S in ('started', 'won', 'scheduled'):
                if chk == 'C03':
                    raise Violation('undecided-with-everybody-out:' + S, {'op': op})
                if chk == 'C02':
                    raise Stop('everybody out but state %s (judged under C03)' % S)
                raise Abandon('everybody out but state %s' % S)
            if S == 'jumpoff':
                self.enter_or_continue_jumpoff(op, prev, judge_jo)

    def enter_or_continue_jumpoff(self, op, prev, judge):
        c, m = self.c, self.m
        pl = self.places()
        R = [b for b, a in m.ath.items() if pl[b] == 1 and a.out != 'retired']
        first = prev != 'jumpoff'
        if first:
            T = m.tie_set()
            if T is None:
                # everybody out with no clearance at all: the text is silent, and the participants
                # cannot be read from public attributes (unplaced athletes show no place)
                m.no_clear_case = True
                self.st.inc('stop:jumpoff-with-no-clearance-at-all')
                raise Stop('jump-off with no clearance at all')
            m.jo_T = list(T)
            exp = [b for b in T if m.ath[b].out != 'retired']
            self.st.inc('jumpoff-entered:%d-way' % len(T))
            if any(m.ath[b].out == 'retired' for b in T):
                self.st.inc('jumpoff-entered-with-retired-co-leader')
            if judge:
                if len(T) < 2:
                    raise Violation('jumpoff-without-tie-for-first', {'op': op, 'tie_set': T})
                if sorted(R) != sorted(exp):
                    raise Violation('jumpoff-participants-differ-from-countback-tie',
                                    {'op': op, 'reinstated(place 1, not retired)': R, 'tie_set': T, 'places': pl})
        else:
            m._close_round()
            self.st.inc('jumpoff-round-all-failed')
            if m.jo_wf and not m.follow_only and m.round_in is not None:
                exp = [b for b in m.round_in if m.ath[b].out != 'retired']
                if judge and sorted(R) != sorted(exp):
                    raise Violation('jumpoff-reinstated-set-differs-from-round',
                                    {'op': op, 'reinstated(place 1, not retired)': R, 'round': m.round_in,
                                     'places': pl})
            else:
                self.st.inc('jumpoff-illformed-followed-unchecked')
        if not R:
            # state 'jumpoff' although nobody shown in first place may jump (they all retired).  The
            # run goes on: everybody is out, so every further trial must be refused (C02 judges that);
            # for C03 this is the same undecided situation as 'started' with everybody out.
            self.st.inc('probe:jumpoff-with-nobody-reinstated')
            if self.check == 'C03':
                raise Violation('undecided-with-everybody-out:jumpoff-with-nobody-to-jump', {'op': op, 'places': pl})
        m.reinstate(R)

    # ---- C03 -----------------------------------------------------------------------------
    def check_bests(self, op):
        hs = self.c.heights
        for j in self.c.jumpers:
            best = D0
            for i, cell in enumerate(j.attempts_by_height):
                if 'o' in cell and hs[i] > best:
                    best = hs[i]
            if j.highest_cleared != best:
                raise Violation('best-is-not-greatest-height-cleared',
                                {'op': op, 'bib': j.bib, 'best': str(j.highest_cleared), 'card': list(j.attempts_by_height),
                                 'heights': [str(h) for h in hs]})

    def check_terminal(self, op):
        c, m = self.c, self.m
        S = c.state
        if m.no_clear_case:
            return
        if m.jo_T is not None and not m.jo_wf:
            self.st.inc('terminal-unchecked:illformed-jumpoff')
            return
        if S in ('finished', 'drawn') and m.jo_T is not None:
            m._close_round()
            if not m.jo_wf:
                self.st.inc('terminal-unchecked:illformed-jumpoff')
                return
        cards = self.impl_cards()
        hs = list(c.heights)
        pl = self.places()
        upto = m.jo_start if m.jo_T is not None else None
        keys = countback_keys(cards, hs, upto)
        exp = competition_places(keys)
        anyclear = {b: any('o' in cell for cell in cards[b]) for b in cards}
        det = {'op': op, 'state': S, 'places': pl, 'cards': cards, 'heights': [str(h) for h in hs],
               'countback_places': exp, 'jumpoff_participants': m.jo_T}
        for b in cards:
            if not anyclear[b]:
                if pl[b] != '':
                    raise Violation('unplaced-athlete-has-a-place', det)
            elif not isinstance(pl[b], int):
                raise Violation('athlete-with-clearance-has-no-place', det)
        placed = [b for b in cards if anyclear[b]]
        if not placed:
            return
        if not valid_competition_ranking([pl[b] for b in placed]):
            raise Violation('places-not-a-competition-ranking', det)
        firsts = [b for b in placed if pl[b] == 1]
        notout = [b for b, a in m.ath.items() if a.out == 'no']
        if m.jo_T is None:
            for b in placed:
                if pl[b] != exp.get(b):
                    raise Violation('places-differ-from-countback:' + S, det)
            if S == 'finished' and len(firsts) != 1:
                raise Violation('tie-for-first-left-standing-in-finished', det)
            if S == 'won' and not (len(notout) == 1 and firsts == notout):
                raise Violation('won-but-survivor-not-alone-in-first', det)
            self.note_tiebreak(keys, placed)
        else:
            P = m.jo_T
            for b in placed:
                if b not in P and pl[b] != exp.get(b):
                    raise Violation('non-participant-place-differs-from-countback', det)
            for b in P:
                if not (1 <= pl[b] <= len(P)):
                    raise Violation('jumpoff-participant-not-ahead-of-non-participants', det)
            if S == 'finished':
                if len(firsts) != 1:
                    raise Violation('tie-for-first-left-standing-in-finished', det)
                if len(notout) == 1 and firsts != notout:
                    raise Violation('jumpoff-survivor-is-not-first', det)
                if firsts[0] not in P:
                    raise Violation('winner-was-not-tied-for-first', det)
            elif S == 'drawn':
                last = [b for b in (m.round_in or [])]
                for b in last:
                    if pl[b] != 1:
                        raise Violation('drawn-but-last-round-participant-not-first', det)
            self.tb_levels.add('jumpoff')
        self.st.inc('terminal-checked:' + S + (':after-jumpoff' if m.jo_T is not None else ''))
        if len(set(pl[b] for b in placed)) < len(placed) and any(pl[b] != 1 for b in placed
                                                                   if [pl[x] for x in placed].count(pl[b]) > 1):
            self.st.inc('probe:shared-place-below-first')

    def note_tiebreak(self, keys, placed):
        ks = sorted(keys[b] for b in placed)
        for a, b in zip(ks, ks[1:]):
            if a[0] == b[0]:
                if a[1] != b[1]:
                    self.tb_levels.add('failures-at-best')
                elif a[2] != b[2]:
                    self.tb_levels.add('total-failures')
                else:
                    self.tb_levels.add('exact-tie')

    # ---- C08 -----------------------------------------------------------------------------
    def crash_log(self):
        c = self.c
        self._ev('crash_log')
        try:
            r = c.from_actions()
        except Exception as e:
            raise Violation('log-replay-raised:%s' % type(e).__name__, {'error': str(e), 'log': repr(c.actions)[-400:]})
        a, b = snapshot(c), snapshot(r)
        self.st.inc('fault:crash-recover-from-log')
        if 'refused' in self.hist_flags:
            self.st.inc('fault:crash-recover-from-log-after-refusals')
        if a != b:
            raise Violation('log-replay-differs:' + '+'.join(snap_diff(a, b)),
                            {'changed': snap_diff(a, b), 'original': repr(a)[:700], 'replayed': repr(b)[:700]})
        self.shadows.append(r)
        if len(self.shadows) > 2:
            self.shadows.pop(0)
        self.hist_flags.add('crash')
        return True

    def shadow_step(self, op, acc, after):
        for r in self.shadows:
            try:
                do(r, op, self.opts); racc = True
            except self.RV:
                racc = False
            except Exception as e:
                raise Violation('shadow-raised:%s' % type(e).__name__, {'op': op, 'error': str(e)})
            self.st.inc('shadow-steps')
            if racc != acc:
                raise Violation('recovered-replica-%s-what-original-%s' %
                                (('accepts', 'refuses') if racc else ('refuses', 'accepts')), {'op': op})
            b = snapshot(r)
            if b != after:
                raise Violation('recovered-replica-diverged:' + '+'.join(snap_diff(after, b)),
                                {'op': op, 'changed': snap_diff(after, b), 'original': repr(after)[:700],
                                 'replica': repr(b)[:700]})

    def card_view(self, c):
        per = []
        for j in sorted(c.jumpers, key=lambda j: str(j.bib)):
            per.append((str(j.bib), strip_cards(j.attempts_by_height), j.highest_cleared, j.place))
        return (c.state, tuple(c.heights), tuple(per))

    def crash_card(self):
        c = self.c
        self._ev('crash_card')
        if not c.jumpers:
            return None
        try:
            mtx = c.to_matrix()
            r = self.HJ.from_matrix(copy.deepcopy(mtx))
        except Exception as e:
            raise Violation('card-import-raised:%s' % type(e).__name__, {'error': str(e), 'card': repr(c.to_matrix())})
        a, b = self.card_view(c), self.card_view(r)
        self.st.inc('fault:crash-recover-from-card')
        if any('-' in cell for j in c.jumpers for cell in j.attempts_by_height):
            self.st.inc('fault:crash-recover-from-card-with-explicit-passes')
        if a != b:
            names = ('state', 'heights', 'athletes(bib,card-without-passes,best,place)')
            ch = [names[i] for i in range(3) if a[i] != b[i]]
            raise Violation('card-roundtrip-differs:' + '+'.join(ch),
                            {'changed': ch, 'card': mtx, 'original': repr(a)[:700], 'reimported': repr(b)[:700]})
        self.hist_flags.add('crash')
        return True

    def resched(self, kind, seed):
        """Re-run the accepted history with another jumping order inside every height."""
        self._ev('resched', kind, seed)
        if kind == 'last_all':
            # every interleaving of the *current* height (earlier heights as they were), if there are at
            # most 24 of them: the place where a transient order dependence lives
            res = None
            for ops in all_orders_of_last_height(self.accepted, 24):
                r = self._resched_one(kind, seed, ops)
                res = res or r
            return res
        ops = reorder(self.accepted, kind, seed)
        return self._resched_one(kind, seed, ops)

    def _resched_one(self, kind, seed, ops):
        if ops is None or ops == self.accepted:
            self.st.inc('resched-identical-skipped')
            return None
        r = self.HJ()
        for i, op in enumerate(ops):
            try:
                do(r, op, self.opts)
            except self.RV as e:
                raise Violation('reordered-history-refused', {'kind': kind, 'seed': seed, 'index': i, 'op': op,
                                                               'error': str(e), 'original': self.accepted, 'reordered': ops})
            except Exception as e:
                raise Violation('reordered-history-raised:%s' % type(e).__name__,
                                {'kind': kind, 'seed': seed, 'index': i, 'op': op, 'error': str(e)})
        self.st.inc('fault:reschedule:' + kind)
        a, b = self.order_view(self.c), self.order_view(r)
        if a != b:
            names = ('state', 'heights', 'athletes(bib,card,best,place)')
            ch = [names[i] for i in range(3) if a[i] != b[i]]
            raise Violation('reordered-history-ends-differently:' + '+'.join(ch),
                            {'kind': kind, 'seed': seed, 'changed': ch, 'original_order': self.accepted,
                             'reordered': ops, 'original': repr(a)[:700], 'reordered_result': repr(b)[:700]})
        self.hist_flags.add('resched')
        return True

    def order_view(self, c):
        per = []
        for j in sorted(c.jumpers, key=lambda j: str(j.bib)):
            per.append((str(j.bib), tuple(j.attempts_by_height), j.highest_cleared, j.place))
        return (c.state, tuple(c.heights), tuple(per))

    def digest(self):
        return self.h.hexdigest()[:16]


def strip_trailing(cells):
    r = list(cells)
    while r and r[-1] == '':
        r.pop()
    return r


RESCHED_KINDS = ('random', 'roundrobin', 'reverse_rr', 'each_finishes', 'last_first', 'last_all')


def all_orders_of_last_height(accepted, cap):
    """All interleavings (each athlete's own sequence kept) of the trials after the last bar move; [] if
    there are more than `cap` of them or fewer than two."""
    cut = 0
    for i, op in enumerate(accepted):
        if op[0] in ('add', 'bar'):
            cut = i + 1
    head, seg = list(accepted[:cut]), list(accepted[cut:])
    per = {}
    for op in seg:
        per.setdefault(op[1], []).append(op)
    if len(per) < 2:
        return []
    out = []

    def rec(prefix, idx):
        if len(out) > cap:
            return
        if all(idx[b] == len(per[b]) for b in per):
            out.append(list(prefix))
            return
        for b in sorted(per):
            if idx[b] < len(per[b]):
                idx[b] += 1
                prefix.append(per[b][idx[b] - 1])
                rec(prefix, idx)
                prefix.pop()
                idx[b] -= 1
    rec([], {b: 0 for b in per})
    if len(out) > cap or len(out) < 2:
        return []
    return [head + o for o in out if head + o != list(accepted)]


def reorder(accepted, kind, seed):
    """Same per-athlete sequences inside every height, another interleaving."""
    rng = random.Random(seed)
    out = []
    seg = []
    def flush():
        if not seg:
            return
        per = {}
        order = []
        for op in seg:
            if op[1] not in per:
                per[op[1]] = []; order.append(op[1])
            per[op[1]].append(op)
        bibs = sorted(order)
        if kind == 'random':
            idx = {b: 0 for b in bibs}
            pool = [b for b in bibs for _ in per[b]]
            rng.shuffle(pool)
            for b in pool:
                out.append(per[b][idx[b]]); idx[b] += 1
        elif kind in ('roundrobin', 'reverse_rr'):
            bs = bibs if kind == 'roundrobin' else bibs[::-1]
            i = 0
            while any(len(per[b]) > i for b in bs):
                for b in bs:
                    if len(per[b]) > i:
                        out.append(per[b][i])
                i += 1
        else:
            bs = bibs if kind == 'each_finishes' else bibs[::-1]
            for b in bs:
                out.extend(per[b])
        del seg[:]
    for op in accepted:
        if op[0] in ('add', 'bar'):
            flush()
            out.append(op)
        else:
            seg.append(op)
    flush()
    return out


# ---------------------------------------------------------------------------------------------
# the director: officials, athletes with personas, scheduler, heckler, crash injector

def fmt(h):
    return '%.2f' % h


class Director(object):
    def __init__(self, rng, check, tier_, aux_seed=0):
        self.rng = rng
        # a second stream for the disturbances added later (calls on another competition of the same
        # process): the main stream, hence the histories of the competition under test, stay what they were
        self.aux = random.Random((aux_seed << 1) | 1)
        self.p_co = self.aux.choice([0.0, 0.0, 0.0, 0.08, 0.25])
        self.crash_everywhere = (check == 'C08' and self.aux.random() < 0.02)
        self.co_bibs = []; self.co_h = None; self.co_n = 0
        self.check = check
        thorough = tier_ == 'thorough'
        r = rng
        self.mode = 'competition' if (check == 'C03' or r.random() < 0.65) else 'free'
        lo = 2 if check in ('C03', 'C08') else 1
        self.n = r.choice([lo, 2, 2, 3, 3, 4])
        self.H = r.randint(1, 8 if thorough and r.random() < 0.4 else 4)
        self.JH = r.randint(0, 6 if thorough and r.random() < 0.4 else 3)
        # (0.95 and 9.90: the bar crosses 1.00 / 10.00, where a textual comparison of heights would go wrong)
        self.start = Decimal(r.choice(['1.00', '1.50', '1.80', '2.00', '3.10', '0.95', '9.90', '4.85']))
        self.inc = Decimal(r.choice(['0.01', '0.03', '0.05', '0.10']))
        self.p_tie = r.choice([0.0, 0.3, 0.6, 0.9, 1.0])
        self.heckle = r.choice([0.0, 0.05, 0.15, 0.4])
        self.crash = r.choice([0.05, 0.15, 0.3]) if check == 'C08' else 0.0
        self.p_early = r.choice([0.0, 0.0, 0.05, 0.2])
        self.p_pass = r.choice([0.0, 0.05, 0.15, 0.3])
        self.p_ret = r.choice([0.0, 0.02, 0.05, 0.12])
        self.jo_policy = r.choice(['raise', 'repeat', 'lower', 'mixed', 'mixed', 'below_best'])
        self.jo_tie = r.choice([0.2, 0.5, 0.8])
        self.jo_ret = r.choice([0.0, 0.0, 0.05, 0.2, 0.5])
        # sloppy jump-offs: a participant is not called, or passes, before the bar moves.  The rules do
        # not describe these (C03 does not judge them) but the calls are legal, so C02/C08 must cope.
        self.jo_sloppy = r.choice([0.0, 0.0, 0.0, 0.15] if check == 'C03' else [0.0, 0.0, 0.15, 0.4])
        self.sched = r.choice(['random', 'random', 'rr', 'finish_first'])
        self.force_last = r.random() < 0.8 and self.H > 1
        self.skill = [r.uniform(0.35, 0.95) for _ in range(self.n)]
        self.maxops = 250 if thorough else 140
        self.bibs = BIBS[:self.n]
        self.config = {k: (str(v) if isinstance(v, Decimal) else v) for k, v in self.__dict__.items()
                       if k not in ('rng', 'skill', 'bibs', 'aux', 'co_bibs', 'co_h', 'co_n')}

    # ---- scripts -------------------------------------------------------------------------
    def regular_cell(self, i, skill):
        r = self.rng
        p_clear = max(0.0, min(0.95, skill - 0.12 * i + (0.25 if i == 0 else 0.0)))
        if self.force_last and i == self.H - 1:
            p_clear = 0.0
        cell = ''
        for a in range(3):
            if r.random() < self.p_early:
                return cell
            x = r.random()
            if x < self.p_pass:
                return cell + '-'
            if x < self.p_pass + self.p_ret:
                return cell + 'r'
            if r.random() < p_clear:
                return cell + 'o'
            cell += 'x'
        return cell

    def make_scripts(self):
        sc = {}
        for t, b in enumerate(self.bibs):
            if t > 0 and self.rng.random() < self.p_tie:
                sc[b] = list(sc[self.rng.choice(self.bibs[:t])])
            else:
                sc[b] = [self.regular_cell(i, self.skill[t]) for i in range(self.H)]
        return sc

    # ---- run -----------------------------------------------------------------------------
    def run(self, ex):
        if self.check == 'C02' and self.aux.random() < 0.12:
            ex.step(('opt', 'float-heights')); self.co_n += 1
        try:
            if self.mode == 'free':
                self.run_free(ex)
            else:
                self.run_competition(ex)
        except Stop as s:
            if self.check == 'C08' and len(ex.trace) < self.maxops + 20:
                self.final_battery(ex)
            raise
        if self.check == 'C08':
            self.final_battery(ex)

    def final_battery(self, ex):
        r = self.rng
        ex.step(('crash_log',))
        ex.step(('crash_card',))
        for k in RESCHED_KINDS[1:]:
            ex.step(('resched', k, 0))
        for _ in range(3):
            ex.step(('resched', 'random', r.randrange(1 << 30)))

    def maybe_fault(self, ex, hot=False):
        r = self.rng
        if self.check != 'C08':
            return
        if self.crash_everywhere:
            # 2 % of the C08 runs: after EVERY call the object is rebuilt from the log and from the card and
            # every interleaving of the current height is re-executed ("every competition prefix reachable")
            ex.step(('crash_log',)); ex.step(('crash_card',)); ex.step(('resched', 'last_all', 0))
            self.co_n += 3
            return
        p = self.crash * (3.0 if hot else 1.0)
        if r.random() < p:
            x = r.random()
            if x < 0.4:
                ex.step(('crash_log',))
            elif x < 0.7:
                ex.step(('crash_card',))
            else:
                ex.step(('resched', r.choice(RESCHED_KINDS), r.randrange(1 << 30)))

    def heckle_op(self, ex):
        """A call the model predicts the rules forbid (or leave open) right now; None if there is none."""
        r = self.rng
        m = ex.m
        cands = []
        for _ in range(6):
            x = r.random()
            if x < 0.62:
                op = (r.choice(TRIALS), r.choice(self.bibs if m.ath else ['A']))
                if op[1] not in m.ath:
                    continue
            elif x < 0.85:
                if m.heights:
                    last = m.heights[-1]
                    h = r.choice([last, last - self.inc, last - 3 * self.inc, Decimal('0.00'), last + self.inc])
                else:
                    h = r.choice([Decimal('0.00'), Decimal('-1.00')])
                op = ('bar', fmt(h))
            else:
                nb = [b for b in BIBS if b not in m.ath]
                if not nb:
                    continue
                op = ('add', r.choice(nb))
            lg = m.legal(op)
            if lg is False or (lg is None and op[0] == 'bar' and not m.heights):
                cands.append(op)
        return r.choice(cands) if cands else None

    def step(self, ex, op, hot=False):
        res = ex.step(op)
        if self.p_co and self.aux.random() < self.p_co:
            for _ in range(self.aux.randint(1, 3)):
                ex.step(self.co_op())
                self.co_n += 1
        if len(ex.trace) - self.co_n >= self.maxops:
            raise Stop('op budget')
        return res

    def co_op(self):
        """The next call on the other competition of the meeting: same bibs, same heights - whatever the two
        objects share by accident (class attributes, module-level memos keyed by bib or height) collides."""
        a = self.aux
        x = a.random()
        if x < 0.03:
            self.co_bibs = []; self.co_h = None
            return ('co_new',)
        if self.co_h is None:
            if len(self.co_bibs) < 2 or (len(self.co_bibs) < 4 and x < 0.5):
                b = a.choice([b for b in BIBS if b not in self.co_bibs])
                self.co_bibs.append(b)
                return ('co', 'add', b)
            self.co_h = self.start
            return ('co', 'bar', fmt(self.co_h))
        if x < 0.2:
            self.co_h = self.co_h + self.inc * a.choice([1, 1, 2, -1, 0])
            return ('co', 'bar', fmt(self.co_h))
        return ('co', a.choice(['o', 'o', 'x', 'x', 'x', '-', 'r']), a.choice(self.co_bibs))

    def run_competition(self, ex):
        r = self.rng
        m = ex.m
        hk = lambda: (r.random() < self.heckle)
        if hk():
            op = self.heckle_op(ex)
            if op: self.step(ex, op)
        for b in self.bibs:
            self.step(ex, ('add', b))
            if hk():
                op = self.heckle_op(ex) or ('x', b)
                if op[0] in TRIALS or op[0] == 'bar':
                    self.step(ex, op)
        # (a tolerated first bar <= 0 may have been accepted, after which late adds are refused)
        self.bibs = [b for b in self.bibs if b in m.ath]
        if not self.bibs:
            raise Stop('no athletes')
        scripts = self.make_scripts()
        height = self.start
        if m.heights and height <= m.heights[-1]:
            height = m.heights[-1] + self.inc
        regular_done = 0
        jo_rounds = 0
        while True:
            # ---- move the bar ----
            if m.phase in ('finished', 'drawn'):
                break
            if hk():
                # e.g. an athlete just re-instated for a jump-off trying to jump before the bar is set
                op = self.heckle_op(ex)
                if op:
                    self.step(ex, op)
                    self.maybe_fault(ex, hot=True)
                    if m.phase in ('finished', 'drawn'):
                        break
            if m.phase == 'jumpoff':
                if jo_rounds >= self.JH:
                    break
                jo_rounds += 1
                height = self.jumpoff_height(ex, height)
                self.step(ex, ('bar', fmt(height)))
                self.maybe_fault(ex, hot=True)
                part = [b for b, a in m.ath.items() if a.out == 'no']
                cells = self.jumpoff_cells(part, last=(jo_rounds == self.JH))
            else:
                if regular_done >= self.H:
                    break
                if regular_done:
                    height = height + self.inc * r.choice([1, 1, 2, 3])
                self.step(ex, ('bar', fmt(height)))
                self.maybe_fault(ex, hot=True)
                cells = {b: scripts[b][regular_done] for b in self.bibs}
                regular_done += 1
            # ---- everybody takes their trials at this height, in an order the scheduler picks ----
            pos = {b: 0 for b in cells}
            rr = 0
            cur = None
            while True:
                todo = [b for b in cells if pos[b] < len(cells[b]) and m.legal((cells[b][pos[b]], b)) is True]
                if not todo or m.phase in ('finished', 'drawn'):
                    break
                if self.sched == 'random':
                    b = r.choice(todo)
                elif self.sched == 'rr':
                    b = todo[rr % len(todo)]; rr += 1
                else:
                    b = cur if cur in todo else todo[0]; cur = b
                mark = cells[b][pos[b]]; pos[b] += 1
                if hk():
                    op = self.heckle_op(ex)
                    if op:
                        self.step(ex, op)
                        self.maybe_fault(ex, hot=True)
                    if m.legal((mark, b)) is not True:
                        continue
                prev = m.phase
                self.step(ex, (mark, b))
                self.maybe_fault(ex, hot=(mark == 'r' or m.phase != prev))
        # ---- after the end: heckle a little more, crash once more ----
        for _ in range(r.choice([0, 1, 2, 4])):
            op = self.heckle_op(ex)
            if op:
                self.step(ex, op)

    def jumpoff_height(self, ex, height):
        r = self.rng
        pol = self.jo_policy
        if pol == 'mixed':
            pol = r.choice(['raise', 'repeat', 'lower', 'below_best'])
        if pol == 'raise':
            return height + self.inc
        if pol == 'repeat':
            return height
        if pol == 'lower':
            h = height - self.inc
        else:
            h = height - self.inc * r.choice([2, 3, 5, 8])
        return h if h > 0 else Decimal('0.01')

    def jumpoff_cells(self, part, last=False):
        r = self.rng
        if last and len(part) > 1 and r.random() < 0.8:
            w = r.choice(part)
            return {b: ('o' if b == w else 'x') for b in part}
        if r.random() < self.jo_tie:
            mk = r.choice(['o', 'x', 'x'])
            cells = {b: mk for b in part}
        else:
            cells = {b: r.choice(['o', 'x']) for b in part}
        for b in part:
            if r.random() < self.jo_ret:
                cells[b] = 'r'
            elif r.random() < self.jo_sloppy:
                cells[b] = r.choice(['', '-'])
        return cells

    def run_free(self, ex):
        r = self.rng
        m = ex.m
        n0 = r.randint(0, self.n)
        for b in self.bibs[:n0]:
            self.step(ex, ('add', b))
        height = self.start
        length = r.randint(5, max(5, self.maxops - 10))
        wt = r.choice([(0.3, 0.45, 0.15, 0.1), (0.2, 0.65, 0.1, 0.05), (0.45, 0.35, 0.1, 0.1), (0.25, 0.25, 0.25, 0.25)])
        p_bar = r.choice([0.1, 0.2, 0.35])
        after_end = r.choice([1, 3, 6])
        for i in range(length):
            if m.phase in ('finished', 'drawn'):
                after_end -= 1
                if after_end < 0:
                    break
            x = r.random()
            if x < 0.04 or not m.ath:
                nb = [b for b in self.bibs if b not in m.ath] or [r.choice(BIBS)]
                op = ('add', r.choice(nb))
                if op[1] in m.ath and r.random() < 0.9:
                    continue
            elif x < 0.04 + p_bar or not m.heights and r.random() < 0.5:
                y = r.random()
                if not m.heights:
                    h = self.start if y < 0.85 else Decimal(r.choice(['0.00', '-0.50']))
                elif y < 0.7:
                    h = m.heights[-1] + self.inc * r.choice([1, 1, 2])
                elif y < 0.8:
                    h = m.heights[-1]
                else:
                    h = m.heights[-1] - self.inc * r.choice([1, 2, 4])
                    if h <= 0 and m.phase == 'jumpoff':
                        h = Decimal('0.01')
                op = ('bar', fmt(h))
            else:
                y = r.random()
                mark = 'o' if y < wt[0] else 'x' if y < wt[0] + wt[1] else '-' if y < wt[0] + wt[1] + wt[2] else 'r'
                # bias towards athletes who may act, so that the walk makes progress
                cand = [b for b in m.ath if m.legal((mark, b)) is True]
                b = r.choice(cand) if cand and r.random() < 0.7 else r.choice(list(m.ath))
                op = (mark, b)
            prev = m.phase
            res = self.step(ex, op)
            self.maybe_fault(ex, hot=(res is False or m.phase != prev or op[0] in ('bar', 'r')))


# ---------------------------------------------------------------------------------------------
# runs, minimisation, replay

def run_ops(athlib, check, ops):
    """Replay explicit ops. Returns (violation or None, executor).

    After a Stop (a case the rule text leaves open: the model no longer predicts) only the
    model-independent recovery / re-scheduling ops that follow are still executed - exactly what the
    director does with its final battery."""
    ex = Executor(athlib, check)
    stopped = False
    try:
        for op in ops:
            if stopped and op[0] not in ('crash_log', 'crash_card', 'resched'):
                continue
            try:
                ex.step(op)
            except Stop:
                stopped = True
    except Violation as v:
        return v, ex
    except Abandon:
        return None, ex
    return None, ex


ENUM_EVERY = {'quick': {'C02': 256, 'C08': 160, 'C03': 4000}, 'thorough': {'C02': 512, 'C08': 256, 'C03': 8000}}
ENUM_DEPTH = {'C02': 2, 'C08': 1, 'C03': 1}


def enum_alphabet(ex, d):
    """Every call of C02's alphabet at the state reached: 4 marks x every athlete, the bar higher / equal /
    lower / at zero, one more athlete."""
    m = ex.m
    ops = [(k, b) for b in m.ath for k in TRIALS]
    if m.heights:
        last = m.heights[-1]
        hs = [last + d.inc, last, last - d.inc, Decimal('0.00')]
    else:
        hs = [d.start, Decimal('0.00')]
    ops += [('bar', fmt(h)) for h in hs]
    nb = [b for b in BIBS if b not in m.ath]
    if nb:
        ops.append(('add', nb[0]))
    return ops


def enum_run(athlib, check, tier_, seed, stats):
    """Systematic part (C02: 'exhaustively to a depth bound, and by long random walks beyond it'): a seeded
    history is cut at a seeded point, and from the state reached EVERY sequence of ENUM_DEPTH calls over the
    whole alphabet is tried, each on a fresh object that re-executes the prefix (so a reported trace is
    self-contained).  C08 follows every single call with a recovery from the log, from the card, and every
    interleaving of the current height."""
    import itertools
    rng = random.Random(seed)
    d = Director(rng, check, tier_, aux_seed=seed)
    d.p_co = 0.0
    d.crash = 0.0
    d.maxops = d.aux.choice([1, 2, 3, 5, 8, 12, 16, 20, 25, 30, 40])
    ex = Executor(athlib, check, stats)
    stats.inc('enum:bases')
    stats.inc('mode:enumerated-continuations')
    try:
        d.run(ex)
    except Violation as v:
        stats.inc('end:violation')
        return v, ex, d
    except Abandon:
        stats.inc('end:abandoned-model-lost-track')
        return None, ex, d
    except Stop as s_:
        if 'op budget' not in str(s_):
            stats.inc('end:stopped:' + str(s_).split(' (')[0][:40])
            return None, ex, d
    base = [op for op in ex.trace if op[0] not in ('crash_log', 'crash_card', 'resched')]
    alpha = enum_alphabet(ex, d)
    depth = ENUM_DEPTH[check]
    if tier_ == 'thorough' and d.aux.random() < 1.0 / 64:
        depth += 1              # (thorough: one base in 64 goes one call deeper - up to 9 261 continuations)
        stats.inc('enum:bases-one-deeper')
    for suffix in itertools.product(alpha, repeat=depth):
        ex2 = Executor(athlib, check, stats)
        try:
            for op in base:
                ex2.step(op)
            for op in suffix:
                ex2.step(op)
            if check == 'C08':
                ex2.step(('crash_log',)); ex2.step(('crash_card',)); ex2.step(('resched', 'last_all', 0))
        except Violation as v:
            stats.inc('end:violation')
            return v, ex2, d
        except (Stop, Abandon):
            pass
        stats.inc('enum:continuations')
        stats.inc('ops', len(ex2.trace))
        ex._ev('enum', ex2.digest())
        ex.hist_flags |= ex2.hist_flags
        ex.states_seen |= ex2.states_seen
    stats.inc('end:completed')
    return None, ex, d


CELLS = ['o', 'xo', 'xxo', 'xxx', 'x-', 'xx-', '-', 'r', 'xr', 'xxr', '', 'x', 'xx']


def exec_height(ex, cells):
    """Everybody's marks at the current height, attempt by attempt in start-list order (as a card is read).
    False as soon as a mark cannot be made as written (the athlete is out, the competition over)."""
    m = ex.m
    for a in range(3):
        for b, cell in cells.items():
            if len(cell) > a:
                op = (cell[a], b)
                if m.legal(op) is not True:
                    return False
                ex.step(op)
    return True


def replayed(athlib, check, stats, ops):
    ex = Executor(athlib, check, stats)
    for op in ops:
        ex.step(op)
    return ex


def enum_run_c03(athlib, tier_, seed, stats):
    """Systematic part of C03 ('all result cards over the legal attempt strings per height ... followed by
    every jump-off continuation'): a seeded competition of 0-3 heights is the prefix; at the NEXT height every
    combination of the 13 legal attempt strings for the athletes still in is played, and wherever that leads
    into a jump-off, every first round (bar raised / repeated / lowered below the best x every o/x/r per
    participant) is played too, later rounds seeded.  Each on a fresh object that re-executes the prefix."""
    import itertools
    check = 'C03'
    rng = random.Random(seed)
    d = Director(rng, check, tier_, aux_seed=seed)
    a = d.aux
    d.p_co = 0.0
    n = a.choice([2, 2, 2, 3])
    hpre = a.choice([0, 1, 1, 2, 2, 3])
    d.n = n; d.bibs = BIBS[:n]; d.H = max(1, hpre); d.force_last = False
    d.skill = [a.uniform(0.5, 0.98) for _ in range(n)]
    d.p_early = a.choice([0.0, 0.1, 0.3])      # blank cells and cells cut short (a height skipped without a pass)
    scripts = d.make_scripts()
    stats.inc('enum:bases')
    stats.inc('mode:enumerated-continuations')
    ex = Executor(athlib, check, stats)
    height = d.start
    try:
        for b in d.bibs:
            ex.step(('add', b))
        for i in range(hpre):
            if ex.m.phase in ('finished', 'drawn', 'jumpoff') or ex.m.all_out():
                break
            ex.step(('bar', fmt(height)))
            exec_height(ex, {b: scripts[b][i] for b in d.bibs})
            height = height + d.inc
        base = list(ex.trace)
        active = [b for b, at in ex.m.ath.items() if at.out == 'no']
        if ex.m.phase not in ('scheduled', 'started') or not active:
            stats.inc('end:completed')
            return None, ex, d
        last_bar = ('bar', fmt(height))
        for tup in itertools.product(CELLS, repeat=len(active)):
            ex2 = None
            try:
                ex2 = replayed(athlib, check, stats, base + [last_bar])
                exec_height(ex2, dict(zip(active, tup)))
                stats.inc('enum:continuations')
                if ex2.m.phase == 'jumpoff' and ex2.c.state == 'jumpoff':
                    part = [b for b, at in ex2.m.ath.items() if at.out == 'no']
                    ops2 = list(ex2.trace)
                    for pol in ('raise', 'repeat', 'below'):
                        h2 = height + d.inc if pol == 'raise' else height if pol == 'repeat' else max(Decimal('0.01'), height - 3 * d.inc)
                        for marks in itertools.product('oxr', repeat=len(part)):
                            ex3 = None
                            try:
                                ex3 = replayed(athlib, check, stats, ops2 + [('bar', fmt(h2))])
                                exec_height(ex3, dict(zip(part, marks)))
                                h3 = h2
                                for rnd in range(2):            # later rounds: seeded
                                    if not (ex3.m.phase == 'jumpoff' and ex3.c.state == 'jumpoff'):
                                        break
                                    p3 = [b for b, at in ex3.m.ath.items() if at.out == 'no']
                                    h3 = h3 + d.inc * a.choice([1, 0, -1, -4])
                                    if h3 <= 0:
                                        h3 = Decimal('0.01')
                                    ex3.step(('bar', fmt(h3)))
                                    exec_height(ex3, {b: a.choice('oxxr' if rnd == 0 else 'ox') for b in p3})
                                stats.inc('enum:jumpoff-continuations')
                            except (Stop, Abandon):
                                pass
                            except Violation as v:
                                stats.inc('end:violation')
                                return v, ex3, d
                            if ex3 is not None:
                                stats.inc('ops', len(ex3.trace))
                                ex._ev('enum', ex3.digest())
                                ex.tb_levels |= ex3.tb_levels
            except (Stop, Abandon):
                pass
            except Violation as v:
                stats.inc('end:violation')
                return v, ex2, d
            if ex2 is not None:
                stats.inc('ops', len(ex2.trace))
                ex._ev('enum', ex2.digest())
                ex.tb_levels |= ex2.tb_levels
                ex.states_seen |= ex2.states_seen
    except Violation as v:
        stats.inc('end:violation')
        return v, ex, d
    except (Stop, Abandon):
        pass
    stats.inc('end:completed')
    return None, ex, d


def one_run(athlib, check, tier_, seed, stats, idx=None):
    every = ENUM_EVERY.get(tier_, {}).get(check)
    if check == 'C03' and every and idx is not None and idx % every == (idx // every * 7 + 3) % every:
        v, ex, d = enum_run_c03(athlib, tier_, seed, stats)
        stats.inc('ops', len(ex.trace))
        return v, ex, d
    # (the residue rotates with the block number, so that the enumerating runs are spread over all workers)
    if every and idx is not None and idx % every == (idx // every * 7 + 3) % every:
        v, ex, d = enum_run(athlib, check, tier_, seed, stats)
        stats.inc('ops', len(ex.trace))
        return v, ex, d
    rng = random.Random(seed)
    d = Director(rng, check, tier_, aux_seed=seed)
    ex = Executor(athlib, check, stats)
    viol = None
    try:
        d.run(ex)
        stats.inc('end:completed')
    except Violation as v:
        viol = v
        stats.inc('end:violation')
    except Abandon as a:
        stats.inc('end:abandoned-model-lost-track')
    except Stop as s:
        stats.inc('end:stopped:' + str(s).split(' (')[0][:40])
    stats.inc('mode:' + d.mode)
    stats.inc('ops', len(ex.trace))
    return viol, ex, d


def run_sequence(athlib, check, tier_, master, indices):
    """Runs the given run indices one after the other in this process; the violation (or None) of the last."""
    v = None
    for i in indices:
        v, ex, d = one_run(athlib, check, tier_, common.run_seed(check, master, i), Counter(), i)
    return v


def context_replay(check, tier_, master, indices, cls):
    """Shortest tail of `indices` (runs a worker executed, the last one violating) that reproduces the
    violation class in a FRESH interpreter; None if not even the whole sequence does."""
    import subprocess
    tails = []
    k = 1
    while k < len(indices):
        tails.append(indices[-(k + 1):]); k *= 4
    tails.append(indices)
    for tail in tails:
        p = subprocess.run([sys.executable, os.path.join(common.VERIF_DIR, 'run_check.py'), '--hj-sequence', check, tier_,
                            str(master), ','.join(map(str, tail))], capture_output=True, text=True, timeout=3600)
        last = p.stdout.strip().splitlines()[-1] if p.stdout.strip() else ''
        if p.returncode == 0 and last == 'SEQUENCE-VIOLATION ' + cls:
            return tail
    return None


def fresh_confirms(check, ops, cls):
    """Does this explicit trace show the violation class in a fresh interpreter (where nothing ran before)?"""
    import subprocess
    p = subprocess.run([sys.executable, os.path.join(common.VERIF_DIR, 'run_check.py'), '--hj-ops', check],
                       input=json.dumps([list(o) for o in ops]), capture_output=True, text=True, timeout=600)
    last = p.stdout.strip().splitlines()[-1] if p.stdout.strip() else ''
    return p.returncode == 0 and last == 'OPS-VIOLATION ' + cls


def ops_main(check):
    athlib = common.import_athlib()
    ops = [tuple(o) for o in json.loads(sys.stdin.read())]
    v, ex = run_ops(athlib, check, ops)
    print('OPS-VIOLATION ' + v.cls if v is not None else 'OPS-CLEAN')
    return 0


def sequence_main(check, tier_, master, indices):
    athlib = common.import_athlib()
    v = run_sequence(athlib, check, tier_, master, indices)
    print('SEQUENCE-VIOLATION ' + v.cls if v is not None else 'SEQUENCE-CLEAN')
    return 0


def minimise(athlib, check, ops, cls):
    def fails(sub):
        v, _ = run_ops(athlib, check, sub)
        return v is not None and v.cls == cls
    ops = [tuple(o) for o in ops]
    small = common.ddmin(ops, fails, max_tests=600)
    v, ex = run_ops(athlib, check, small)
    if v is None or v.cls != cls:
        # a subject whose behaviour depends on more than its call history (object addresses, what ran
        # before in the process): fall back to the unshrunk trace, and if even that fails now, say so
        small = ops
        v, ex = run_ops(athlib, check, small)
        if v is None or v.cls != cls:
            return None
    return small, v, ex


def nontrivial(check, ex):
    f = ex.hist_flags
    if check == 'C02':
        return 'refused' in f and 'accepted-trial' in f
    if check == 'C08':
        return ('crash' in f or 'resched' in f) and len(ex.m.ath) >= 2 and 'accepted-trial' in f
    return ex.c.state in ('finished', 'won', 'drawn') and len(ex.tb_levels - {'exact-tie'}) > 0


TIERS = {
    'quick': {'C02': 480000, 'C03': 600000, 'C08': 130000, 'wall': 1200, 'det': 400},
    'thorough': {'C02': 6000000, 'C03': 6000000, 'C08': 2000000, 'wall': 7200, 'det': 4000},
}

RULES = {
    'C02': 'one evaluation = one seeded history of calls on a fresh competition (competition mode: officials + 1-4 athletes '
           'following per-height scripts + a heckler inserting calls the rules forbid; free mode: random walk over the whole '
           'alphabet), every call judged against the reference model (accepted <=> legal), every refusal checked to be a '
           'RuleViolation that leaves the observable snapshot untouched, every acceptance checked to be logged once and to show '
           'on the card, state progress checked; distinct = distinct (call, outcome, state) sequences by hash; non-trivial = '
           'contains at least one refused call and at least one accepted trial; every 256th/512th evaluation instead cuts a seeded history at a '
           'seeded point and tries every sequence of two (thorough, 1 in 64: three) calls over the whole alphabet from there; in 40 % of the runs '
           'calls on a second competition object are interleaved; in 12 % the heights are floats',
    'C03': 'one evaluation = one seeded complete competition (2-4 athletes, shared scripts to provoke ties, well-formed jump-offs '
           'with bar raised/repeated/lowered), bests checked after every call and places checked against countback computed '
           'from the cards alone whenever the state is finished/won/drawn; distinct = distinct terminal result cards by hash; '
           'non-trivial = reached a terminal state with >= 2 athletes separated by the 2nd or 3rd countback level or a jump-off; every 4000th/8000th '
           'evaluation instead plays every combination of the 13 legal attempt strings at the height after a seeded prefix and every first jump-off round behind it',
    'C08': 'one evaluation = one seeded history with crash/recover points: rebuild from the action log (then kept in lock step '
           'for the rest of the run), export/import of the card, and re-execution of the accepted history under other jumping '
           'orders; distinct = distinct (history, fault points) by hash; non-trivial = >= 2 athletes, >= 1 accepted trial and '
           '>= 1 recovery or re-scheduling actually executed; every 160th/256th evaluation instead tries every single next call at a seeded state, each '
           'followed by all three recoveries; 2 % of the runs recover after every call',
}


def worker_fn(check, tier_, master, n_runs, budget_s=None):
    def w(wi, nw):
        athlib = common.import_athlib()
        st = Counter()
        hists = set(); nt = set(); states = set(); tbl = Counter()
        viols = {}
        ctx_seen = set()
        samples = []
        rd = [0]
        t0 = time.monotonic()
        for i in range(wi, n_runs, nw):
            if budget_s and (i & 255) == wi and time.monotonic() - t0 > budget_s:
                st.inc('runs_not_started_budget', len(range(i, n_runs, nw)))
                break
            seed = common.run_seed(check, master, i)
            v, ex, d = one_run(athlib, check, tier_, seed, st, i)
            rd[0] = (rd[0] + common.run_digest_term(i, [ex.digest(), v.cls if v else None])) & ((1 << 64) - 1)
            st.inc('runs')
            if check == 'C03':
                key = hash((ex.c.state, tuple(sorted((str(j.bib), tuple(j.attempts_by_height), j.place)
                                                     for j in ex.c.jumpers)), tuple(ex.c.heights)))
            else:
                key = hash(ex.digest())
            hists.add(key)
            if nontrivial(check, ex):
                nt.add(key)
            states |= ex.states_seen
            for l in ex.tb_levels:
                tbl.inc(l)
            if ex.terminal_seen:
                st.inc('reached-finished-or-drawn')
            if v is not None and v.cls not in viols and v.cls not in ctx_seen and len(viols) < 6:
                v0, ex0 = run_ops(athlib, check, ex.trace)
                mini = minimise(athlib, check, ex.trace, v.cls) if (v0 is not None and v0.cls == v.cls) else None
                if mini is not None and not fresh_confirms(check, mini[0], v.cls):
                    # reproduced here, but this process has run thousands of competitions before: not in a fresh one
                    mini = (list(ex.trace), v0, ex0) if fresh_confirms(check, ex.trace, v.cls) else None
                if mini is None:
                    # the run's own call history does not reproduce it on fresh objects: the competition's
                    # behaviour depended on the competitions this process ran before it
                    ctx_seen.add(v.cls)     # (handled once per class and worker: every attempt costs fresh interpreters)
                    if sum(1 for x in viols.values() if x.get('run_sequence')) >= 2:
                        continue        # (two such reports per worker are enough; each costs fresh interpreters)
                    allruns = list(range(wi, i + 1, nw))
                    ctx = context_replay(check, tier_, master, allruns, v.cls)
                    # (not even the worker's whole sequence reproduces it in a fresh interpreter: the subject
                    # depends on something outside every seam - object addresses, say.  The oracle judged a
                    # history that really happened, so it is still reported, marked as observed once.)
                    cls2 = ('depends-on-earlier-competitions:' if ctx else 'observed-once-not-replayable:') + v.cls
                    if ctx is None:
                        st.inc('violations-observed-but-not-replayable')
                    viols[cls2] = {'class': cls2, 'detail': dict(v.detail, context_runs=ctx or allruns, replayable=bool(ctx)),
                                   'trace': [list(o) for o in ex.trace],
                                   'run_index': i, 'run_seed': seed, 'digest': ex.digest(), 'config': d.config,
                                   'minimised_from': len(ex.trace), 'run_sequence': ctx or allruns, 'tier': tier_}
                    continue
                ops, mv, mex = mini
                viols[v.cls] = {'class': v.cls, 'detail': mv.detail, 'trace': ops, 'run_index': i, 'run_seed': seed,
                                'digest': mex.digest(), 'config': d.config, 'minimised_from': len(ex.trace)}
            elif v is None and len(samples) < 2 and nontrivial(check, ex) and len(ex.trace) < 40:
                samples.append({'run_index': i, 'mode': d.mode, 'trace': [list(o) for o in ex.trace],
                                'final_state': ex.c.state,
                                'card': [list(map(str, row)) for row in ex.c.to_matrix()] if ex.c.jumpers else [],
                                'places': {str(k): v2 for k, v2 in ex.places().items()}})
        return {'st': st, 'hists': hists, 'nt': nt, 'states': states, 'tbl': tbl, 'viols': viols, 'samples': samples,
                'rd': rd[0]}
    return w


def det_fingerprints(prop, master, idxs, k=None):
    athlib = common.import_athlib()
    out = {}
    for i in idxs:
        st = Counter()
        v, ex, d = one_run(athlib, prop, 'quick', common.run_seed(prop, master, i), st, i)
        out[str(i)] = common.digest_of([ex.digest(), [list(o) for o in ex.trace], v.cls if v else None, sorted(st.items())])
    return out


def determinism_selftest(check, master, n):
    import subprocess
    idxs = list(range(n))
    a = det_fingerprints(check, master, idxs)
    def other(wi, nw):
        return det_fingerprints(check, master, idxs[wi::nw])
    b = {}
    for part in common.run_pool(other, 3, wall_cap=600):
        b.update(part)
    env = dict(os.environ, VERIF_HASHSEED='4242', PYTHONHASHSEED='4242', PYTHONDONTWRITEBYTECODE='1')
    p = subprocess.run([sys.executable, os.path.join(common.VERIF_DIR, 'run_check.py'), '--det-fingerprint',
                        check, str(master), ','.join(map(str, idxs)), '0'],
                       env=env, capture_output=True, text=True, timeout=1200)
    if p.returncode != 0:
        raise HarnessError('determinism sub-interpreter failed: %s' % (p.stdout[-1000:] + p.stderr[-1000:]))
    cfp = json.loads(p.stdout.strip().splitlines()[-1])
    div = [i for i in idxs if a[str(i)] != b[str(i)] or a[str(i)] != cfp[str(i)]]
    return {'checked': 3 * len(idxs), 'diverged': len(div), 'diverged_idx': div[:5]}


def main(check, tier_):
    t0 = time.time()
    master = common.master_seed()
    cfg = TIERS[tier_]
    n_runs = int(os.environ.get('VERIF_RUNS', cfg[check]))
    budget = float(os.environ['VERIF_BUDGET_S']) if os.environ.get('VERIF_BUDGET_S') else None
    print('%s hjsim tier=%s seed=%d runs=%d repo=%s' % (check, tier_, master, n_runs, common.REPO), flush=True)
    nw = common.ncpu()
    parts = common.run_pool(worker_fn(check, tier_, master, n_runs, budget), nw, wall_cap=cfg['wall'])
    st = Counter(); tbl = Counter(); hists = set(); nt = set(); states = set(); viols = {}; samples = []
    rd = 0
    for p in parts:
        rd = (rd + p['rd']) & ((1 << 64) - 1)
        st.merge(p['st']); tbl.merge(p['tbl']); hists |= p['hists']; nt |= p['nt']; states |= p['states']
        samples += p['samples']
        for cls, v in p['viols'].items():
            if cls not in viols or v['run_index'] < viols[cls]['run_index']:
                viols[cls] = v
    corpus = run_corpus(check)
    for cls, v in corpus['viols'].items():
        viols.setdefault(cls, v)
    det = determinism_selftest(check, master, cfg['det'])
    wall = time.time() - t0
    digest = common.tree_digest()
    known = common.load_known_findings().get(check, {})
    vlines = []; klines = []
    for cls, v in sorted(viols.items()):
        if v.get('run_sequence'):
            name = re.sub(r'[^A-Za-z0-9_.-]+', '_', cls)[:80] + '-s%d' % master
            path = common.write_replay(check, name, {
                'engine': 'hjsim', 'kind': 'run-sequence', 'master_seed': master, 'tier': v['tier'],
                'indices': v['run_sequence'], 'run_index': v['run_index'], 'run_seed': v['run_seed'],
                'athlib_tree_digest': digest, 'scenario': v['config'], 'trace': v['trace'],
                'violation': {'class': cls, 'detail': v['detail']}, 'event_digest': v['digest'],
                'minimised_from': {'runs_of_the_worker': len(range(v['run_index'] % nw, v['run_index'] + 1, nw))}})
            vlines.append('VIOLATION property=%s replay=%s' % (check, path))
            continue
        sig = match_known(check, v, known)
        if sig:
            klines.append('KNOWN-FINDING: property=%s sig=%s %s' % (check, sig, known[sig]))
            continue
        name = re.sub(r'[^A-Za-z0-9_.-]+', '_', cls)[:80] + '-s%d' % master
        path = common.write_replay(check, name, {
            'engine': 'hjsim', 'master_seed': master, 'run_index': v['run_index'], 'run_seed': v['run_seed'],
            'athlib_tree_digest': digest, 'scenario': v['config'], 'trace': [list(o) for o in v['trace']],
            'violation': {'class': cls, 'detail': v['detail']}, 'event_digest': v['digest'],
            'minimised_from': {'ops': v['minimised_from']}})
        vlines.append('VIOLATION property=%s replay=%s' % (check, path))
    runs = st.get('runs', 0)
    faults = {k[6:]: v for k, v in st.items() if k.startswith('fault:')}
    faults['rule-violating-request-refused'] = sum(v for k, v in st.items() if k.startswith('refused:') and not k.endswith('LEGAL'))
    coverage = {
        'evaluations': runs,
        'distinct_nontrivial': len(nt),
        'rule': RULES[check],
        'samples': samples[:4],
        'distinct_histories': len(hists),
        'distinct_states': len(states),
        'distinct_states_measure': 'abstract model states (phase, per athlete: out-kind, done-here, consecutive failures, current cell, attempt limit) visited',
        'logical_steps': st.get('ops', 0),
        'simulated_time': 'not applicable - no clock in the subject; logical steps (calls issued) reported instead',
        'runs_per_hour': int(runs / max(wall, 1e-9) * 3600),
        'seeds': {'master': master, 'first_index': 0, 'last_index': n_runs - 1},
        'faults_fired': faults,
        'refusals_by_reason': {k[8:]: v for k, v in st.items() if k.startswith('refused:')},
        'call_matrix_state_kind_outcome': {k[5:]: v for k, v in sorted(st.items()) if k.startswith('call:')},
        'state_transitions': {k[11:]: v for k, v in st.items() if k.startswith('transition:')},
        'probes': {k: v for k, v in st.items() if k.split(':')[0] in ('jumpoff-entered', 'probe', 'terminal-checked',
                   'terminal-unchecked', 'tolerated', 'stop', 'jumpoff-round-all-failed', 'shadow-steps',
                   'jumpoff-entered-with-retired-co-leader', 'jumpoff-illformed-followed-unchecked',
                   'resched-identical-skipped', 'reached-finished-or-drawn')},
        'tiebreak_levels_decisive': dict(tbl),
        'enumerated_continuations': {'bases (seeded history cut at a seeded point)': st.get('enum:bases', 0),
                                     'continuations (every call sequence of the depth below over the whole alphabet, each on a fresh object)': st.get('enum:continuations', 0),
                                     'first jump-off rounds enumerated behind them (C03)': st.get('enum:jumpoff-continuations', 0),
                                     'bases enumerated one call deeper (thorough)': st.get('enum:bases-one-deeper', 0),
                                     'depth': ENUM_DEPTH.get(check, 0),
                                     'every_nth_run': ENUM_EVERY.get(tier_, {}).get(check, 0)},
        'run_endings': {k[4:]: v for k, v in st.items() if k.startswith('end:')},
        'modes': {k[5:]: v for k, v in st.items() if k.startswith('mode:')},
        'violation_classes': sorted(viols),
        'known_findings_matched': len(klines),
        'regression_corpus': {'replayed': corpus['replayed'], 'reproduced': corpus['reproduced']},
        'determinism': det,
        'all_runs_digest': '%016x' % rd,
        'components': {'real': ['athlib.highjump (working tree)', 'decimal'],
                       'simulated': ['officials, athletes (scripted personas), jumping-order scheduler, heckler, crash injector'],
                       'stub': []},
        'workers': nw, 'athlib_tree_digest': digest,
    }
    common.write_evidence(check, tier_, master, coverage, wall, len(vlines), [
        'legality and jump-off participation are judged by a reference model written from the rule text of C02/C03',
        'the model reads the competition phase from the implementation and validates it (necessary conditions only)',
        'cases the rule text leaves open (first bar <= 0, nobody cleared anything, passes or skipped attempts in a jump-off) are tolerated either way',
        'bibs are A-D, heights have two decimals; duplicate/unknown bibs are outside the alphabet'])
    for l in klines:
        print(l)
    for l in vlines:
        print(l)
    print('%s: runs=%d distinct=%d nontrivial=%d states=%d endings=%s classes=%s det=%s wall=%.1fs' %
          (check, runs, len(hists), len(nt), len(states), coverage['run_endings'], sorted(viols), det, wall))
    if det['diverged'] and vlines:
        # the harness replays the same seeds differently *because the subject depends on more than its call
        # history* (that is what the violations above say): reported, not a harness error
        print('NOTE determinism self-test diverged on this tree (%s) - consistent with the violations reported' % det)
        return 1
    if det['diverged']:
        print('HARNESS-ERROR determinism self-test diverged: %s' % det)
        return 2
    return 1 if vlines else 0


def run_corpus(check):
    """Directed regression: re-execute every recorded failing trace of this property."""
    athlib = common.import_athlib()
    out = {'replayed': 0, 'reproduced': 0, 'viols': {}}
    for path in common.corpus_files(check):
        rp = common.load_replay(path)
        ops = [tuple(o) for o in rp['trace']]
        v, ex = run_ops(athlib, check, ops)
        out['replayed'] += 1
        if v is not None:
            out['reproduced'] += 1
            out['viols'].setdefault(v.cls, {'class': v.cls, 'detail': v.detail, 'trace': ops, 'run_index': -1, 'run_seed': 0,
                                            'digest': ex.digest(), 'config': {'corpus_file': os.path.basename(path)},
                                            'minimised_from': len(ops)})
    return out


def match_known(check, v, known):
    k = common.match_known(check, v['class'], {'trace': [list(o) for o in v['trace']], 'detail': v['detail']}, known)
    return k[0] if k else None


def replay(path):
    rp = common.load_replay(path)
    check = rp['property']
    if rp.get('kind') == 'run-sequence':
        # a violation that needs the competitions run before it in the same process: re-run that sequence,
        # in the same kind of fresh interpreter the search used to confirm it
        want = rp['violation']['class'].split(':', 1)[-1]
        ok = context_replay(check, rp['tier'], rp['master_seed'], rp['indices'], want)
        print('replay: %d runs in sequence in a fresh interpreter: %s' % (len(rp['indices']), 'reproduced' if ok else 'clean'))
        if not ok:
            print('replay: no violation reproduced (recorded class %s)' % rp['violation']['class'])
            return 0
        print('replay: recorded detail %s' % json.dumps(rp['violation']['detail'], default=str)[:1500])
        print('VIOLATION property=%s replay=%s' % (check, path))
        return 1
    athlib = common.import_athlib()
    v, ex = run_ops(athlib, check, [tuple(o) for o in rp['trace']])
    print('replay: %d ops, final state %s, card %s' % (len(ex.trace), ex.c.state,
                                                       ex.c.to_matrix() if ex.c.jumpers else []))
    if v is None:
        print('replay: no violation reproduced (recorded class %s)' % rp['violation']['class'])
        return 0
    same = v.cls == rp['violation']['class']
    print('replay: violation class %s (%s recorded); detail %s' % (v.cls, 'same as' if same else 'DIFFERENT from',
                                                                   json.dumps(v.detail, default=str)[:1500]))
    print('replay: digest %s (recorded %s)' % (ex.digest(), rp.get('event_digest')))
    print('VIOLATION property=%s replay=%s' % (check, path))
    if common.tree_digest() == rp.get('athlib_tree_digest') and (not same or ex.digest() != rp.get('event_digest')):
        print('HARNESS-ERROR replay diverged on an identical tree')
        return 2
    return 1

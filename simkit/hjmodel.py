"""Reference model of a high-jump / pole-vault competition, written from the rule text of
properties C02 / C03 (not from athlib/highjump.py).  See DESIGN.md 4.2-4.3.

Ops (the alphabet of C02):  ('add', bib)  ('bar', 'H.HH')  ('o'|'x'|'-'|'r', bib)
"""
from decimal import Decimal

D0 = Decimal('0.00')
RANK = {'scheduled': 0, 'started': 1, 'jumpoff': 2, 'won': 2, 'finished': 3, 'drawn': 3}
METHOD = {'o': 'cleared', 'x': 'failed', '-': 'passed', 'r': 'retired'}
TRIALS = ('o', 'x', '-', 'r')


class Ath(object):
    __slots__ = ('bib', 'cells', 'consec', 'out', 'done', 'att', 'lim', 'wait')

    def __init__(self, bib):
        self.bib = bib
        self.cells = []
        self.consec = 0         # consecutive failures, carried across heights, reset by a clearance
        self.out = 'no'         # 'no' | 'failed' | 'retired'
        self.done = False       # cleared or passed the current height
        self.att = 0            # marks in the current cell
        self.lim = 3            # attempts allowed per height (1 once in a jump-off)
        self.wait = False       # re-instated for a jump-off: nothing more at the current height

    def copy(self):
        a = Ath(self.bib)
        a.cells = list(self.cells); a.consec = self.consec; a.out = self.out; a.done = self.done
        a.att = self.att; a.lim = self.lim; a.wait = self.wait
        return a


def countback_keys(cards, heights, upto=None):
    """bib -> (-best, failures at best, failures up to and including best) or None (no clearance),
    from the cards alone; only the first `upto` height columns are looked at."""
    out = {}
    for b, cells in cards.items():
        best = None; bi = None
        cs = cells if upto is None else cells[:upto]
        for i, c in enumerate(cs):
            if 'o' in c and (best is None or heights[i] > best):
                best = heights[i]; bi = i
        if best is None:
            out[b] = None
        else:
            out[b] = (-best, cs[bi].count('x'), sum(c.count('x') for c in cs[:bi + 1]))
    return out


def competition_places(keys):
    """standard competition ranking (1,2,2,4) of the bibs whose key is not None."""
    ks = [k for k in keys.values() if k is not None]
    return {b: (1 + sum(1 for k2 in ks if k2 < k)) for b, k in keys.items() if k is not None}


def valid_competition_ranking(places):
    ps = sorted(places)
    for i, p in enumerate(ps):
        if p != i + 1 and (i == 0 or p != ps[i - 1]):
            return False
    return True


def best_from_cells(cells, heights):
    best = D0
    for i, c in enumerate(cells):
        if 'o' in c and heights[i] > best:
            best = heights[i]
    return best


class Model(object):
    def __init__(self):
        self.ath = {}               # bib -> Ath (insertion ordered)
        self.heights = []
        self.phase = 'scheduled'    # read from the implementation after each accepted call, validated
        self.jo_T = None            # the countback tie-for-first set when the jump-off was entered
        self.jo_start = None        # column index of the first jump-off height
        self.jo_wf = True           # jump-off well-formed so far (everybody attempts/retires each round)
        self.jo_rounds = 0
        self.round_in = None        # athletes in at the start of the current jump-off round
        self.no_clear_case = False  # everybody went out with no clearance at all (text silent)
        self.follow_only = False    # model stopped predicting jump-off participants

    # ---- legality ------------------------------------------------------------------------
    def legal(self, op):
        """True / False / None (= the rule text leaves it open: accept or refuse, both fine)."""
        k = op[0]
        if k == 'add':
            if op[1] in self.ath:
                return None
            return not self.heights
        if k == 'bar':
            h = Decimal(op[1])
            if self.phase in ('finished', 'drawn'):
                return False
            if self.phase == 'jumpoff':
                return True if h > 0 else None
            if not self.heights:
                return True if h > 0 else None
            return h > self.heights[-1]
        # a trial
        if not self.heights:
            return False
        if self.phase in ('finished', 'drawn'):
            return False
        a = self.ath[op[1]]
        if a.out != 'no' or a.wait or a.done or a.att >= a.lim:
            return False
        return True

    def why_illegal(self, op):
        k = op[0]
        if k == 'add':
            return 'late-add'
        if k == 'bar':
            return 'bar-after-end' if self.phase in ('finished', 'drawn') else 'bar-not-higher'
        if not self.heights:
            return 'trial-before-start'
        if self.phase in ('finished', 'drawn'):
            return 'trial-after-end'
        a = self.ath[op[1]]
        if a.out == 'retired':
            return 'trial-after-retiring'
        if a.out == 'failed':
            return 'trial-when-out' + ('-in-jumpoff' if self.phase == 'jumpoff' else '')
        if a.wait:
            return 'trial-reinstated-before-next-bar'
        if a.done:
            return 'trial-after-clear-or-pass' + ('-in-jumpoff' if self.phase == 'jumpoff' else '')
        return 'too-many-attempts'

    # ---- transitions ---------------------------------------------------------------------
    def apply(self, op):
        k = op[0]
        if k == 'add':
            self.ath[op[1]] = Ath(op[1])
        elif k == 'bar':
            if self.phase == 'jumpoff':
                if self.jo_start is None:
                    self.jo_start = len(self.heights)
                else:
                    self._close_round()
                self.jo_rounds += 1
            self.heights.append(Decimal(op[1]))
            for a in self.ath.values():
                a.done = False; a.att = 0; a.wait = False
            if self.phase == 'jumpoff':
                self.round_in = [b for b, a in self.ath.items() if a.out == 'no']
        else:
            a = self.ath[op[1]]
            while len(a.cells) < len(self.heights):
                a.cells.append('')
            a.cells[-1] += k
            a.att += 1
            if k == 'o':
                a.consec = 0; a.done = True
            elif k == 'x':
                a.consec += 1
                if a.consec >= a.lim:
                    a.out = 'failed'
            elif k == '-':
                a.done = True
                if self.phase == 'jumpoff':
                    self.jo_wf = False      # a pass is not an attempt: not a jump-off the rules describe
            elif k == 'r':
                a.out = 'retired'

    def _close_round(self):
        """A jump-off round ends (bar moves / competition ends): did everybody attempt or retire?"""
        if self.round_in is None:
            return
        col = len(self.heights) - 1
        for b in self.round_in:
            a = self.ath[b]
            cell = a.cells[col] if len(a.cells) > col else ''
            if not any(m in cell for m in 'oxr'):
                self.jo_wf = False

    def all_out(self):
        return all(a.out != 'no' for a in self.ath.values())

    def cards(self):
        return {b: list(a.cells) for b, a in self.ath.items()}

    def tie_set(self):
        """Countback tie-for-first set over the cards so far (None if nobody has a clearance)."""
        keys = countback_keys(self.cards(), self.heights)
        ks = [k for k in keys.values() if k is not None]
        if not ks:
            return None
        m = min(ks)
        return [b for b, k in keys.items() if k == m]

    def reinstate(self, bibs):
        for b in bibs:
            a = self.ath[b]
            a.out = 'no'; a.consec = 0; a.lim = 1; a.wait = True

    def abstract_state(self):
        return (self.phase, tuple((a.out, a.done, a.consec, (a.cells[-1] if a.cells else None), a.lim)
                                  for a in self.ath.values()))


def snapshot(c):
    """The observables of C02/C08, read through public attributes only."""
    log = []
    for e in c.actions:
        a, v = e[0], e[1]           # (method, argument); an entry may carry more fields behind them
        if isinstance(v, dict):
            v = tuple(sorted(v.items()))
        log.append((a, v))
    per = []
    for j in sorted(c.jumpers, key=lambda j: str(j.bib)):
        per.append((j.bib, tuple(j.attempts_by_height), j.highest_cleared, j.place))
    return (c.state, tuple(c.heights), c.bar_height, tuple(log), tuple(c.trials), tuple(per))


SNAP_FIELDS = ('state', 'heights', 'bar_height', 'log', 'trials', 'athletes(bib,card,best,place)')


def snap_diff(a, b):
    return [SNAP_FIELDS[i] for i in range(len(SNAP_FIELDS)) if a[i] != b[i]]


def strip_cards(cells):
    """cards modulo explicit pass marks and trailing empty cells."""
    r = [c.replace('-', '') for c in cells]
    while r and r[-1] == '':
        r.pop()
    return tuple(r)

"""Shared plumbing of the three simulation engines.

* one integer (VERIF_SEED) decides everything: run_seed(), rng_for()
* re-exec with PYTHONHASHSEED=0 / no bytecode writing
* a plain fork()+pipe worker pool with a wall-clock watchdog
* replay files, evidence files, known-findings file
* the 0 / 1 / 2 exit protocol (2 = harness error, never a pass, never a finding)
"""
import os, sys, json, time, pickle, hashlib, random, signal, select, traceback, errno

VERIF_DIR = os.path.dirname(os.path.dirname(os.path.abspath(__file__)))
REPO = os.path.abspath(os.environ.get('VERIF_REPO', '/repo'))
ATHLIB_DIR = os.path.join(REPO, 'athlib') + os.sep
# VERIF_OUT redirects evidence and replay files (used by the sensitivity self-test, so that runs
# against mutated scratch copies never overwrite the evidence of the real tree)
OUT_DIR = os.path.abspath(os.environ.get('VERIF_OUT', VERIF_DIR))
EVIDENCE_DIR = os.path.join(OUT_DIR, 'evidence')
REPLAY_DIR = os.path.join(OUT_DIR, 'replays')
KNOWN_FINDINGS = os.path.join(VERIF_DIR, 'KNOWN_FINDINGS.txt')


class HarnessError(Exception):
    """The simulator itself is sick (fork failure, divergence, wall kill)."""


def master_seed():
    try:
        return int(os.environ.get('VERIF_SEED', '1'))
    except ValueError:
        return 1


def tier(default='quick'):
    t = os.environ.get('VERIF_TIER', default)
    return t if t in ('quick', 'thorough') else default


def ncpu():
    try:
        n = len(os.sched_getaffinity(0))
    except Exception:
        n = os.cpu_count() or 1
    w = os.environ.get('VERIF_WORKERS')
    if w:
        return max(1, int(w))
    return max(1, min(16, n))


def run_seed(prop, master, *parts):
    s = '|'.join([str(prop), str(master)] + [str(p) for p in parts])
    return int(hashlib.sha256(s.encode()).hexdigest()[:16], 16)


def rng_for(prop, master, *parts):
    return random.Random(run_seed(prop, master, *parts))


def ensure_env():
    """Re-exec once so that hash order and bytecode writing are pinned.

    PYTHONHASHSEED is forced to VERIF_HASHSEED (default 0) whatever the caller's environment says: the
    subject's dependencies are allowed to depend on string-hash order (jsonschema picks one of several
    equally relevant errors for its message by set order), so search, oracle and replay must share it.
    The determinism self-tests pass another VERIF_HASHSEED to prove that the *harness* does not care."""
    want = os.environ.get('VERIF_HASHSEED', '0')
    if os.environ.get('PYTHONHASHSEED') != want or os.environ.get('PYTHONDONTWRITEBYTECODE') != '1':
        env = dict(os.environ)
        env['PYTHONHASHSEED'] = want
        env['PYTHONDONTWRITEBYTECODE'] = '1'
        os.execve(sys.executable, [sys.executable] + sys.argv, env)


HASH_ORDER_DEPENDENT_MESSAGES = ('SchemaError', 'ValidationError', 'RefResolutionError')


def canon_outcome(o):
    """Outcome with the hash-order dependent part removed (the text of jsonschema's error messages);
    used for determinism fingerprints only - the oracles compare full outcomes under one pinned seed."""
    if isinstance(o, (list, tuple)):
        if len(o) == 3 and o[0] == 'exc' and o[1] in HASH_ORDER_DEPENDENT_MESSAGES:
            return [o[0], o[1]]
        return [canon_outcome(x) for x in o]
    if isinstance(o, set):
        return sorted((canon_outcome(x) for x in o), key=repr)
    return o


def import_athlib():
    """Import athlib from VERIF_REPO's working tree (never an installed copy)."""
    if sys.path[0] != REPO:
        sys.path.insert(0, REPO)
    import athlib
    got = os.path.dirname(os.path.abspath(athlib.__file__)) + os.sep
    if got != ATHLIB_DIR:
        raise HarnessError('athlib imported from %s, expected %s' % (got, ATHLIB_DIR))
    return athlib


def tree_digest(subdirs=('athlib',), exts=('.py', '.json')):
    """sha256 over the working tree files the checks execute (recorded in replays)."""
    h = hashlib.sha256()
    for sd in subdirs:
        base = os.path.join(REPO, sd)
        for root, dirs, files in os.walk(base):
            dirs.sort()
            dirs[:] = [d for d in dirs if d != '__pycache__']
            for fn in sorted(files):
                if fn.endswith(exts):
                    p = os.path.join(root, fn)
                    h.update(os.path.relpath(p, REPO).encode())
                    with open(p, 'rb') as f:
                        h.update(f.read())
    return h.hexdigest()[:16]


def run_digest_term(index, obj):
    """Order-independent accumulation of per-run digests: sum these modulo 2**64 over all runs."""
    h = hashlib.sha256(('%s|' % (index,)).encode() + json.dumps(obj, sort_keys=True, default=str).encode()).hexdigest()
    return int(h[:16], 16)


def digest_of(obj):
    return hashlib.sha256(json.dumps(obj, sort_keys=True, default=str).encode()).hexdigest()[:16]


# ---------------------------------------------------------------------------------------------
# fork pool

def _write_all(fd, data):
    mv = memoryview(data)
    while mv:
        try:
            n = os.write(fd, mv)
        except InterruptedError:
            continue
        mv = mv[n:]


def fork_call(fn, wall_cap=30.0, what='child'):
    """Run fn() in a forked child, return its (picklable) result.

    The child is killed after wall_cap seconds -> HarnessError.  An exception in the
    child is re-raised here as HarnessError with its traceback.
    """
    r, w = os.pipe()
    sys.stdout.flush(); sys.stderr.flush()
    pid = os.fork()
    if pid == 0:
        os.close(r)
        code = 0
        try:
            # (no faulthandler.dump_traceback_later here: its watchdog thread does not survive
            #  fork(), and re-arming it in a grandchild joins a thread that is not there -> hang)
            try:
                res = ('ok', fn())
            except BaseException:
                res = ('err', traceback.format_exc())
            _write_all(w, pickle.dumps(res, protocol=4))
        except BaseException:
            code = 3
        finally:
            os._exit(code)
    os.close(w)
    chunks = []
    deadline = time.monotonic() + wall_cap
    killed = False
    try:
        while True:
            left = deadline - time.monotonic()
            if left <= 0:
                killed = True
                break
            rl, _, _ = select.select([r], [], [], min(left, 1.0))
            if rl:
                b = os.read(r, 1 << 16)
                if not b:
                    break
                chunks.append(b)
    finally:
        os.close(r)
        if killed:
            try:
                os.kill(pid, signal.SIGKILL)
            except OSError:
                pass
        try:
            os.waitpid(pid, 0)
        except OSError:
            pass
    if killed:
        raise HarnessError('%s exceeded wall cap of %.0fs and was killed' % (what, wall_cap))
    data = b''.join(chunks)
    if not data:
        raise HarnessError('%s died without a result' % what)
    tag, val = pickle.loads(data)
    if tag == 'err':
        raise HarnessError('%s raised:\n%s' % (what, val))
    return val


def run_pool(worker_fn, nworkers, wall_cap):
    """Fork nworkers children running worker_fn(w, nworkers); gather their results.

    Returns list of results in worker order.  Any worker failure -> HarnessError.
    """
    procs = []
    sys.stdout.flush(); sys.stderr.flush()
    for w in range(nworkers):
        r, wr = os.pipe()
        pid = os.fork()
        if pid == 0:
            os.close(r)
            for (_, rr, _) in procs:
                try: os.close(rr)
                except OSError: pass
            code = 0
            try:
                try:
                    res = ('ok', worker_fn(w, nworkers))
                except BaseException:
                    res = ('err', traceback.format_exc())
                _write_all(wr, pickle.dumps(res, protocol=4))
            except BaseException:
                code = 3
            finally:
                os._exit(code)
        os.close(wr)
        procs.append((pid, r, w))
    bufs = {r: [] for (_, r, _) in procs}
    open_fds = set(bufs)
    deadline = time.monotonic() + wall_cap
    timed_out = False
    while open_fds:
        left = deadline - time.monotonic()
        if left <= 0:
            timed_out = True
            break
        rl, _, _ = select.select(list(open_fds), [], [], min(left, 1.0))
        for fd in rl:
            b = os.read(fd, 1 << 16)
            if not b:
                open_fds.discard(fd)
            else:
                bufs[fd].append(b)
    results = []
    errors = []
    for pid, r, w in procs:
        if timed_out:
            try: os.kill(pid, signal.SIGKILL)
            except OSError: pass
        os.close(r)
        try: os.waitpid(pid, 0)
        except OSError: pass
        data = b''.join(bufs[r])
        if timed_out and r in open_fds:
            errors.append('worker %d exceeded the wall cap of %.0fs' % (w, wall_cap)); continue
        if not data:
            errors.append('worker %d died without a result' % w); continue
        tag, val = pickle.loads(data)
        if tag == 'err':
            errors.append('worker %d raised:\n%s' % (w, val))
        else:
            results.append(val)
    if errors:
        raise HarnessError('; '.join(errors))
    return results


# ---------------------------------------------------------------------------------------------
# replay / evidence / findings

def write_replay(prop, name, payload):
    os.makedirs(REPLAY_DIR, exist_ok=True)
    path = os.path.join(REPLAY_DIR, '%s-%s.json' % (prop, name))
    payload = dict(payload)
    payload.setdefault('format', 'athlib-verif-replay-1')
    payload.setdefault('property', prop)
    with open(path, 'w') as f:
        json.dump(payload, f, indent=1, sort_keys=True, default=str)
        f.write('\n')
    return path


def load_replay(path):
    with open(path) as f:
        return json.load(f)


def corpus_files(prop):
    """Regression corpus: replay files recorded on trees that violated the property (the pre-repair
    tree, or a seeded change).  Every check re-executes its corpus first; on a tree where the
    property holds none of them reproduces."""
    d = os.path.join(VERIF_DIR, 'corpus', prop)
    if not os.path.isdir(d):
        return []
    return [os.path.join(d, f) for f in sorted(os.listdir(d)) if f.endswith('.json')]


def write_evidence(prop, tier_, seed, coverage, wall_s, violations, assumptions):
    os.makedirs(EVIDENCE_DIR, exist_ok=True)
    path = os.path.join(EVIDENCE_DIR, '%s.json' % prop)
    ev = {
        'property_id': prop,
        'tier': tier_,
        'seed': int(seed),
        'level': 'exploration',
        'coverage': coverage,
        'assumptions': list(assumptions),
        'wall_s': round(float(wall_s), 2),
        'violations': int(violations),
    }
    tmp = path + '.tmp'
    with open(tmp, 'w') as f:
        json.dump(ev, f, indent=1, sort_keys=True, default=str)
        f.write('\n')
    os.replace(tmp, path)
    return path


def load_known_findings():
    """Lines 'known: property=<id> sig=<sig> <text>' -> {prop: {sig: text}}; 'fixed:' lines suppress nothing."""
    known = {}
    if not os.path.exists(KNOWN_FINDINGS):
        return known
    with open(KNOWN_FINDINGS) as f:
        for line in f:
            line = line.strip()
            if not line.startswith('known:'):
                continue
            rest = line[len('known:'):].split()
            d = {}
            text = []
            for tok in rest:
                if '=' in tok and tok.split('=', 1)[0] in ('property', 'sig') and tok.split('=', 1)[0] not in d:
                    k, v = tok.split('=', 1)
                    d[k] = v
                else:
                    text.append(tok)
            if 'property' in d and 'sig' in d:
                known.setdefault(d['property'], {})[d['sig']] = ' '.join(text)
    return known


def match_known(prop, cls, payload, known=None):
    """-> (sig, text) if this violation is a listed known finding, else None.

    A signature is `class:<violation class>` optionally followed by `;contains:<text>` clauses (no
    spaces; use `_` for a space) that must all occur in the JSON text of the *minimised* replay payload
    (scenario + trace + detail).  So a finding is identified by its violation class *and* by the specific
    call site / history that fails; another violation of the same property, or the same class elsewhere,
    is still reported.  The file is read-only at run time."""
    if known is None:
        known = load_known_findings().get(prop, {})
    if not known:
        return None
    text = json.dumps(payload, sort_keys=True, default=str)
    for sig, desc in sorted(known.items()):
        parts = sig.split(';')
        ok = True
        for part in parts:
            if part.startswith('class:'):
                ok = ok and part[6:] == cls
            elif part.startswith('contains:'):
                ok = ok and part[9:].replace('_', ' ') in text
            else:
                ok = False
        if ok:
            return sig, desc
    return None


KNOB_PARAMS = ('maxlen', 'maxsize', 'max_size', 'limit', 'capacity')


def cap_size_knobs(cap):
    """Knob randomisation ("buggify"), harness-side: wrap athlib functions that take a size bound (a
    parameter called maxlen, maxsize, limit ... with an int default >= 4) so that the bound is capped at
    `cap`.  Every athlib module global that refers to the original function is rebound.  A bounded cache
    must be transparent at any size, so answers may not change; what changes is that caches sit at their
    limit - and their eviction paths run - after two or three calls instead of twenty.
    Returns the number of functions wrapped."""
    if not cap:
        return 0
    import inspect, types, functools
    mods = [m for name, m in sorted(sys.modules.items()) if name == 'athlib' or name.startswith('athlib.')]
    n = 0
    done = {}
    for m in mods:
        for k, v in list(vars(m).items()):
            if not isinstance(v, types.FunctionType) or not (getattr(v, '__module__', '') or '').startswith('athlib'):
                continue
            if id(v) in done:
                vars(m)[k] = done[id(v)][1]
                continue
            try:
                sig = inspect.signature(v)
            except Exception:
                continue
            names = list(sig.parameters)
            hit = [p for p in names if p in KNOB_PARAMS and isinstance(sig.parameters[p].default, int)
                   and not isinstance(sig.parameters[p].default, bool) and sig.parameters[p].default >= 4]
            if not hit:
                continue
            pname = hit[0]
            pos = names.index(pname)

            def wrapped(*a, _f=v, _pos=pos, _pname=pname, _cap=cap, **kw):
                if _pname in kw:
                    if isinstance(kw[_pname], int):
                        kw[_pname] = min(kw[_pname], _cap)
                elif len(a) > _pos:
                    if isinstance(a[_pos], int):
                        a = a[:_pos] + (min(a[_pos], _cap),) + a[_pos + 1:]
                else:
                    kw[_pname] = _cap
                return _f(*a, **kw)
            functools.update_wrapper(wrapped, v)
            done[id(v)] = (v, wrapped)
            vars(m)[k] = wrapped
            n += 1
    return n


class Counter(dict):
    """dict of ints with += on missing keys; merge() adds another one."""
    def inc(self, k, n=1):
        self[k] = self.get(k, 0) + n
    def merge(self, other):
        for k, v in other.items():
            self[k] = self.get(k, 0) + v


def ddmin(items, fails, max_tests=400):
    """Classic delta debugging on a list: smallest sublist (w.r.t. chunk removal) with fails(sub) true.

    fails() must be deterministic.  Returns a sublist for which fails() held (items itself if
    nothing smaller was found).  The number of oracle calls is capped.
    """
    tests = [0]
    def t(sub):
        if tests[0] >= max_tests:
            return False
        tests[0] += 1
        return fails(sub)
    n = 2
    cur = list(items)
    while len(cur) >= 2:
        chunk = max(1, len(cur) // n)
        subsets = [cur[i:i + chunk] for i in range(0, len(cur), chunk)]
        reduced = False
        for i in range(len(subsets)):
            comp = [x for j, s in enumerate(subsets) if j != i for x in s]
            if comp and t(comp):
                cur = comp
                n = max(n - 1, 2)
                reduced = True
                break
        if not reduced:
            if n >= len(cur):
                break
            n = min(len(cur), n * 2)
        if tests[0] >= max_tests:
            break
    # final single-element pass
    i = 0
    while i < len(cur) and len(cur) > 1 and tests[0] < max_tests:
        comp = cur[:i] + cur[i + 1:]
        if t(comp):
            cur = comp
        else:
            i += 1
    return cur

"""Engine thrsim (C16): real threads under the seeded baton scheduler, oracle = the tree's own
sequential executions.  See DESIGN.md section 3.
"""
import os, sys, re, time, json, itertools, hashlib

from . import common
from .common import Counter, HarnessError
from . import thrsched

PROP = 'C16'

# ---------------------------------------------------------------------------------------------
# call catalogue.  A call is JSON: {"f": name, "a": [...], "k": {...}}.
# {"$validator": "Draft4Validator"} stands for the jsonschema class of that name.

def V(name):
    return {'$validator': name}

SCHEMAS = ['json/athlete.json', 'json/combined_performance.json', 'json/competition.json',
           'json/event.json', 'json/metaschema.json', 'json/performance.json', 'json/race.json',
           'json/definitions/field_performance.json', 'json/definitions/horizontal_jump_performance.json',
           'json/definitions/jump_performance.json', 'json/definitions/throw_performance.json',
           'json/definitions/track_performance.json', 'json/definitions/vertical_jump_performance.json']
VALIDATORS = ['Draft3Validator', 'Draft4Validator', 'Draft6Validator', 'Draft7Validator']
DOC_PAIRS = [
    ('sample-jsons/athlete.json', 'json/athlete.json'),
    ('sample-jsons/athlete_minimal.json', 'json/athlete.json'),
    ('sample-jsons/athlete_invalid.json', 'json/athlete.json'),
    ('sample-jsons/combined_performance.json', 'json/combined_performance.json'),
    ('sample-jsons/combined_performance_invalid.json', 'json/combined_performance.json'),
    ('sample-jsons/combined_performance_minimal.json', 'json/combined_performance.json'),
    ('sample-jsons/competition.json', 'json/competition.json'),
    ('sample-jsons/competition_invalid.json', 'json/competition.json'),
    ('sample-jsons/competition_minimal.json', 'json/competition.json'),
    ('sample-jsons/event.json', 'json/event.json'),
    ('sample-jsons/event_invalid.json', 'json/event.json'),
    ('sample-jsons/event_minimal.json', 'json/event.json'),
    ('sample-jsons/performance.json', 'json/performance.json'),
    ('sample-jsons/performance_invalid.json', 'json/performance.json'),
    ('sample-jsons/performance_minimal.json', 'json/performance.json'),
    ('sample-jsons/race_iffleymiles_2016_600mA.json', 'json/race.json'),
    ('sample-jsons/race_iffleymiles_2016_mileB.json', 'json/race.json'),
    ('sample-jsons/race_invalid_position.json', 'json/race.json'),
    ('sample-jsons/race_invalid_result.json', 'json/race.json'),
    ('sample-jsons/athlete.json', 'json/metaschema.json'),
    ('sample-jsons/event.json', 'json/metaschema.json'),
    ('sample-jsons/performance.json', 'json/metaschema.json'),
    ('sample-jsons/athlete.json', 'json/event.json'),
    ('sample-jsons/event.json', 'json/athlete.json'),
]


def c(f, *a, **k):
    return {'f': f, 'a': list(a), 'k': dict(k)}


def build_catalogue():
    cat = {}
    cat['athlon'] = (
        [c('athlon_score', g, e, v) for (g, e, v) in [
            ('M', '100', 10.5), ('F', 'HJ', 1.80), ('M', 'LJ', 7.5), ('F', 'SP', 14.0), ('M', '800', 110.0),
            ('F', '80H', 12.5), ('M', '100H', 15.0), ('M', 'XYZ', 1.0), ('X', '100', 11.0), ('F', 'WT', 15.2),
            ('M', 'PV', 5.0), ('F', '800', 130.0), ('M', '60', 6.9)]]
        + [c('athlon_score', 'M', '800', 110.0, esaa=True), c('athlon_score', 'F', '800', 130.0, esaa=True)]
        + [c('athlon_score', 'M', '100', 12.5, age=50), c('athlon_score', 'F', 'LJ', 4.5, age=60),
           c('athlon_score', 'M', '110H', 16.0, age=45), c('athlon_score', 'F', 'XYZ', 4.5, age=60)]
        + [c('athlon_performance_needed', g, e, s) for (g, e, s) in [
            ('M', '100', 900), ('F', 'HJ', 1000), ('M', 'SP', 800), ('F', 'XYZ', 500), ('M', '1500', 0),
            ('F', 'JT', 1200), ('M', 'LJ', -5)]])
    cat['hungarian'] = [c('hungarian_score', g, io, e, p) for (g, io, e, p) in [
        ('M', 'OUT', '100', 10.5), ('F', 'OUT', 'LJ', 6.5), ('M', 'IND', '60', 6.8), ('F', 'IND', 'HJ', 1.9),
        ('X', 'OUT', '100', 11.0), ('M', 'XX', '100', 10.0), ('F', 'OUT', 'MAR', 9000.0), ('M', 'OUT', 'MILE', 240.0),
        ('F', 'IND', 'PEN', 4500), ('M', 'OUT', 'QQQ', 1.0), ('F', 'OUT', 'HEP', 6000)]]
    cat['sportshall'] = [c('sportshall_score', e, p) for (e, p) in [
        ('SLJ', '2.10'), ('800', '150'), ('32H', '13.0'), ('BAL', '40'), ('XX', '1'), ('SP', '7.6'),
        ('slj', '1.0'), ('100', '27.1'), ('JT', '21'), ('TART', '15')]]
    wma_args = [('m', 50, '5K'), ('f', 62, '7K'), ('m', 41, 'HJ'), ('f', 55, 'MAR'), ('m', 70, '12K'),
                ('m', 50, '3M'), ('f', 35, '100'), ('m', 101, '100'), ('m', 50, 'XYZ'), ('f', 77, 'SP'),
                ('m', 38, '800'), ('f', 90, 'LJ'), ('q', 50, '100'), ('m', 0, '400'), ('f', 45, '9K')]
    for grp, yk in (('wma2023', {}), ('wma2015', {'year': 2015})):
        L = [c('wma_age_factor', g, a, e, **yk) for (g, a, e) in wma_args]
        L += [c('wma_world_best', g, e, **yk) for (g, e) in [
            ('f', '7K'), ('m', 'HJ'), ('m', '5K'), ('f', 'MAR'), ('m', '3M'), ('f', 'XYZ'), ('m', '12K'), ('f', '100')]]
        L += [c('wma_age_grade', g, a, e, p, **yk) for (g, a, e, p) in [
            ('m', 50, '5K', '16:23'), ('f', 50, '5K', '18:00'), ('f', 50, '7K', '28:00'), ('m', 60, 'HJ', '1.50'),
            ('f', 44, 'SP', '9.50'), ('m', 70, '12K', '55:00'), ('m', 50, 'XYZ', '10')]]
        cat[grp] = L
    cat['aag'] = ([c('wma_athlon_age_factor', g, a, e) for (g, a, e) in [
        ('M', 66, '60H'), ('f', 69, 'LJ'), ('M', 69, '100H'), ('M', 40, 'XYZ'), ('F', 50, '800'), ('M', 35, '100'),
        ('m', 55, '400H'), ('f', 81, 'JT'), ('M', 47, '150H'), ('f', 40, 'SH')]]
        + [c('wma_athlon_age_grade', 'm', 50, '100', '12.5')])
    sv = []
    for s in SCHEMAS[:7]:
        for v in VALIDATORS:
            for ef in (False, True):
                k = {}
                if v != 'Draft3Validator':
                    k['validator'] = V(v)
                if ef:
                    k['expect_failure'] = True
                sv.append(c('utils.schema_valid', s, **k))
    vs = []
    for d, s in DOC_PAIRS:
        vs.append(c('utils.valid_against_schema', d, s))
        vs.append(c('utils.valid_against_schema', d, s, expect_failure=True))
    cat['schema'] = sv + vs
    cat['control'] = [
        c('tyrving_score', 'M', 14, '100', '12.5'), c('tyrving_score', 'F', 12, 'LJ', 4.2),
        c('tyrving_score', 'M', 14, 'XYZ', 1), c('qkids_score', 'QKWL', '75', '11.2'),
        c('qkids_score', 'WESSEXLEAGUE', 'LJ', 3.5), c('qkids_score', 'QKWL', 'ZZ', 1),
        c('bulgarian_score', 'U16', 'M', '100', '12.0'), c('bulgarian_score', 'U16', 'F', 'LJ', 4.5),
        c('normalize_event_code', '4x100h'), c('get_implement_weight', 'SP', 'M', 'U17'),
        c('calc_uka_age_group', '2000-05-01', '2017-06-01', 'TF'),
        c('calc_uka_age_group', {'$date': '2000-05-01'}, {'$date': '2017-06-01'}, 'TF'),
        c('calc_uka_age_group', {'$date': '1970-05-01'}, {'$date': '2017-06-01'}, 'XC'),
        c('calc_uka_age_group', {'$date': '2005-09-02'}, {'$date': '2017-06-01'}, 'TF'),
        # helpers the scoring / grading functions lean on (no shared state today)
        c('parse_hms', '1:02:03.4'), c('parse_hms', '16:23'), c('get_distance', '5K'), c('get_distance', 'MAR'),
        c('get_distance', '3M'), c('str2num', '12.50'), c('round_up_str_num', '12.345', 2),
        c('format_seconds_as_time', 3723.456), c('check_performance_for_discipline', '100', '10.5'),
        c('check_performance_for_discipline', 'LJ', '6.20'), c('check_performance_for_discipline', 'MAR', '2:10:05'),
        c('discipline_sort_key', '400H'), c('text_discipline_sort_key', 'HJ'),
        c('sort_by_discipline', ['HJ', '100', '5000', '4x100', 'LJ']), c('normalize_gender', 'female'),
        c('normalize_event_code', '5000m'), c('normalize_event_code', 'sp4k'), c('is_hand_timing', '10.5'),
        c('get_specific_event_code', 'SP', 'M', 'U17'), c('get_implement_weight', 'JT', 'F', 'V50'),
        c('tyrving_score', 'F', 13, '600', '1:50.2'), c('qkids_score', 'QKWL', '600', '2:01')]
    return cat


CATALOGUE = build_catalogue()

# ---- seeded argument generators: the fixed catalogue above is a hand-picked core; half of the calls are
# drawn from the whole argument space of each function family (every tabulated event code, both
# genders, random ages and marks, interpolated distances, a few invalid codes)
WMA_EVENTS = ['50H', '55H', '60H', 'SH', 'LH', 'SC', '1500W', 'MILEW', '3KW', '5KW', '8KW', '10KW', '15KW', '20KW', 'HMW',
              '25KW', '30KW', '40KW', 'MARW', '50KW', 'HJ', 'PV', 'LJ', 'TJ', 'HT', 'SP', 'DT', 'JT', 'WT', '50', '55', '60',
              '100', '200', '300', '400', '500', '600', '800', '1000', '1500', 'MILE', '2000', '3000', '2MT', '4000', '3MT',
              '5000', '6000', '4MT', '8000', '10000', '5MT', '5K', '6K', '4M', '8K', '5M', '10K', '12K', '15K', '10M', '20K',
              'HM', '25K', '30K', 'MAR', '50K', '50M', '100K', '150K', '100M', '200K']
WMA_INTERP = ['7K', '9K', '11K', '3M', '6M', '7M', '13K', '16K', '35K', '2K', '3K', '45K', '60K', '1M']
ATHLON_EVENTS = ['100', '1000', '10000', '100H', '110H', '1500', '200', '200H', '3000', '3000SC', '400', '400H', '5000', '60',
                 '600', '60H', '800', 'DT', 'HJ', 'HT', 'JT', 'LJ', 'PV', 'SP', 'TJ', 'WT', '80H']
HUN_EVENTS = ['100', '1000', '10000', '100K', '10K', '10KW', '110H', '100H', '1500', '15K', '200', '2000', '2000SC', '20K', '20KW',
              '25K', '2M', '300', '3000', '3000SC', '30K', '3KW', '400', '400H', '4X100', '4X200', '4X400', '50', '500', '5000',
              '50KW', '55', '5KW', '60', '600', '800', 'DEC', 'DT', 'HEP', 'HJ', 'HM', 'HT', 'JT', 'LJ', 'MAR', 'MILE',
              'PEN', 'PV', 'SP', 'TJ', '50H', '55H', '60H']
SH_EVENTS = ['SLJ', 'SHJ', 'STJ', 'SP', 'BAL', 'SPB', 'TART', 'OHT', '32H', 'CHT', '100', 'JT', '800']
AAG_EVENTS = ['100', '200', '400', '800', '1000', '1500', '60H', 'SH', 'LH', 'HJ', 'PV', 'LJ', 'TJ', 'SP', 'DT', 'HT', 'JT', 'WT',
              '80H', '100H', '110H', '300H', '400H', '150H']


_SPECIAL = {}


def special_cells():
    """(table, gender, event, first age, last age) runs of non-numeric cells in the WMA factor tables
    (read from the data files of the tree under test): arguments that land on them take the rarely
    executed paths (None factors), and a hole somebody "repairs" lazily is a classic half-built object."""
    if 'cells' in _SPECIAL:
        return _SPECIAL['cells']
    by_range = {}
    for grp, fn in (('wma2015', 'wma-data-2015.json'), ('wma2023', 'wma-data-2023.json')):
        try:
            with open(os.path.join(common.ATHLIB_DIR, 'wma', fn)) as f:
                d = json.load(f)
            ages = d['ages']
            for g in ('m', 'f'):
                for row in d[g]:
                    run = []
                    cells = list(zip(ages, row[3:])) + [(None, 0.0)]
                    for age, x in cells:
                        if age is not None and not isinstance(x, (int, float)):
                            run.append(age)
                        elif run:
                            by_range.setdefault((run[0], run[-1]), []).append((grp, g, row[0], run[0], run[-1]))
                            run = []
        except Exception:
            pass
    _SPECIAL['cells'] = [by_range[k] for k in sorted(by_range)]
    return _SPECIAL['cells']


def odd_events():
    """Events that sit at DIFFERENT positions (or in only one) of the parallel men's / women's tables of a
    WMA data file, read from the tree under test: anything that remembers a row position across calls is
    only wrong for these (2 of 75 today), so they are asked about far more often than 2/75."""
    if 'odd' not in _SPECIAL:
        odd = []
        for fn in ('wma-data-2015.json', 'wma-data-2023.json'):
            try:
                with open(os.path.join(common.ATHLIB_DIR, 'wma', fn)) as f:
                    d = json.load(f)
                m = [r_[0] for r_ in d['m']]; w = [r_[0] for r_ in d['f']]
                for e in m + w:
                    if (e not in m or e not in w or m.index(e) != w.index(e)) and e not in odd:
                        odd.append(e)
            except Exception:
                pass
        _SPECIAL['odd'] = sorted(odd)
    return _SPECIAL['odd']


def numeric_arg(r, lo, hi):
    """A mark in every spelling callers use: rounded float, full-precision float, int, numeric string,
    string with many digits."""
    x = r.uniform(lo, hi)
    k = r.random()
    if k < 0.45:
        return round(x, 2)
    if k < 0.65:
        return x
    if k < 0.75:
        return int(x)
    if k < 0.9:
        return '%.2f' % x
    return '%.10f' % x


def gen_call(rng, grp):
    r = rng
    if grp in ('wma2023', 'wma2015') and r.random() < 0.12 and special_cells():
        cells = [x for x in r.choice(special_cells()) if x[0] == grp] or r.choice(special_cells())
        sg, g, ev, a0, a1 = r.choice(cells)
        yk = {'year': 2015} if sg == 'wma2015' else {}
        age = r.randint(a0, a1)
        if r.random() < 0.7:
            return c('wma_age_factor', g, age, ev, **yk)
        return c('wma_age_grade', g, age, ev, '3.00', **yk)
    if grp in ('wma2023', 'wma2015'):
        yk = {'year': 2015} if grp == 'wma2015' else {}
        g = r.choice(['m', 'f', 'm', 'f', 'M', 'F'])
        x = r.random()
        ev = r.choice(WMA_EVENTS) if x < 0.62 else r.choice(WMA_INTERP) if x < 0.95 else r.choice(['XYZ', '', '4X100'])
        if x < 0.16 and odd_events():
            ev = r.choice(odd_events())
        age = r.choice([r.randint(30, 100), r.randint(5, 110), r.choice([35, 40, 50, 62.5, 0, 101])])
        k = r.random()
        if k < 0.5:
            return c('wma_age_factor', g, age, ev, **yk)
        if k < 0.75:
            return c('wma_world_best', g.lower(), ev, **yk)
        perf = r.choice(['16:23', '2:05:10', '12.5', '1.50', '45.20', '9.87', '31:02.5'])
        return c('wma_age_grade', g, age, ev, perf, **yk)
    if grp == 'athlon':
        g = r.choice(['M', 'F'])
        ev = r.choice(ATHLON_EVENTS) if r.random() < 0.95 else 'XYZ'
        k = r.random()
        if k < 0.45:
            v = numeric_arg(r, 1.0, 300.0)
            return c('athlon_score', g, ev, v if not isinstance(v, str) else float(v))
        if k < 0.6:
            return c('athlon_score', g, ev, round(r.uniform(1.0, 300.0), 2), age=r.choice([35, 40, 47, 55, 63, 70, 81, r.randint(30, 100)]))
        if k < 0.65:
            return c('athlon_score', g, ev, round(r.uniform(100.0, 160.0), 2), esaa=True)
        return c('athlon_performance_needed', g, ev, r.choice([0, 1, 400, 750, 1000, 1250, -3]))
    if grp == 'hungarian':
        return c('hungarian_score', r.choice(['M', 'F', 'M', 'F', 'X']), r.choice(['OUT', 'OUT', 'IND', 'XX']) if r.random() < 0.97 else 'IN',
                 r.choice(HUN_EVENTS), r.choice([round(r.uniform(1.0, 9000.0), 2), r.uniform(1.0, 100.0), r.randint(1, 9000)]))
    if grp == 'sportshall':
        ev = r.choice(SH_EVENTS) if r.random() < 0.95 else 'XX'
        perf = numeric_arg(r, 0.3, 300.0)
        if isinstance(perf, float) and r.random() < 0.5:
            perf = '%.2f' % perf        # the declared spelling is a string
        return c('sportshall_score', ev if r.random() < 0.9 else ev.lower(), perf)
    if grp == 'aag':
        if r.random() < 0.9:
            return c('wma_athlon_age_factor', r.choice(['M', 'F', 'm', 'f']), r.choice([r.randint(30, 105), 35, 66, 69.5]),
                     r.choice(AAG_EVENTS) if r.random() < 0.95 else 'XYZ')
        return c('wma_athlon_age_grade', r.choice(['m', 'f']), r.randint(35, 90), r.choice(AAG_EVENTS), '12.5')
    return None


def _other(rng, pool, cur):
    xs = [x for x in pool if x != cur]
    return rng.choice(xs) if xs else cur


def near_call(rng, call):
    """A call that differs from `call` in ONE argument, staying in the same class (another tabulated event
    for a tabulated one, another interpolated distance for an interpolated one, another age, the other
    gender, another mark, another validator for the same schema ...).  Neighbouring calls share the same
    table rows, memo buckets and cache lines far more often than independent random ones."""
    r = rng
    f = call['f']; a = list(call['a']); k = dict(call['k'])
    try:
        if f in ('wma_age_factor', 'wma_age_grade', 'wma_athlon_age_factor', 'wma_athlon_age_grade'):
            x = r.random()
            if x < 0.55:
                ev = a[2]
                pool = AAG_EVENTS if 'athlon' in f else (WMA_INTERP if ev in WMA_INTERP or ev not in WMA_EVENTS else WMA_EVENTS)
                a[2] = _other(r, pool, ev)
                if 'athlon' not in f and odd_events() and r.random() < 0.2:
                    a[2] = r.choice(odd_events())
            elif x < 0.8:
                a[1] = r.choice([r.randint(30, 100), a[1] + r.choice([-7, -1, 1, 5]) if isinstance(a[1], int) else 50])
            else:
                a[0] = {'m': 'f', 'f': 'm', 'M': 'F', 'F': 'M'}.get(a[0], 'm')
        elif f == 'wma_world_best':
            if r.random() < 0.7:
                ev = a[1]
                a[1] = _other(r, WMA_INTERP if ev in WMA_INTERP or ev not in WMA_EVENTS else WMA_EVENTS, ev)
            else:
                a[0] = {'m': 'f', 'f': 'm'}.get(a[0], 'm')
        elif f == 'athlon_score':
            x = r.random()
            if x < 0.4:
                a[1] = _other(r, ATHLON_EVENTS, a[1])
            elif x < 0.7:
                a[2] = round(r.uniform(1.0, 300.0), 2)
            elif x < 0.85:
                a[0] = 'F' if a[0] == 'M' else 'M'
            else:
                k['age'] = r.choice([35, 47, 55, 63, 70])
        elif f == 'athlon_performance_needed':
            if r.random() < 0.5:
                a[1] = _other(r, ATHLON_EVENTS, a[1])
            else:
                a[2] = r.choice([0, 400, 750, 1000, 1250])
        elif f == 'hungarian_score':
            x = r.random()
            if x < 0.5:
                a[2] = _other(r, HUN_EVENTS, a[2])
            elif x < 0.8:
                a[3] = round(r.uniform(1.0, 9000.0), 2)
            else:
                a[0] = _other(r, ['M', 'F'], a[0])
        elif f == 'sportshall_score':
            if r.random() < 0.5:
                a[0] = _other(r, SH_EVENTS, str(a[0]).upper())
            else:
                a[1] = numeric_arg(r, 0.3, 300.0)
        elif f == 'utils.schema_valid':
            x = r.random()
            if x < 0.4:
                v = r.choice(VALIDATORS)
                k.pop('validator', None)
                if v != 'Draft3Validator':
                    k['validator'] = V(v)
            elif x < 0.7:
                a[0] = _other(r, SCHEMAS, a[0])
            else:
                if k.pop('expect_failure', None) is None:
                    k['expect_failure'] = True
        elif f == 'utils.valid_against_schema':
            x = r.random()
            if x < 0.4:
                a[0] = _other(r, ALL_DOCS, a[0])
            elif x < 0.7:
                a[1] = _other(r, SCHEMAS[:7], a[1])
            else:
                if k.pop('expect_failure', None) is None:
                    k['expect_failure'] = True
        else:
            return None
    except Exception:
        return None
    return {'f': f, 'a': a, 'k': k}


def pick_call(rng, grp):
    if rng.random() < 0.5:
        g = gen_call(rng, grp)
        if g is not None:
            return g
    return rng.choice(CATALOGUE[grp])
DEFAULT_GROUP_WEIGHTS = [('athlon', 16), ('hungarian', 12), ('sportshall', 8), ('wma2023', 18), ('wma2015', 12),
                 ('aag', 10), ('schema', 18), ('control', 6)]
GROUP_WEIGHTS = list(DEFAULT_GROUP_WEIGHTS)
VARIANTS = [('first', 40), ('warm', 35), ('cachefull', 25)]


FILE_GROUPS = {
    'athlib/athlon_score.py': ['athlon'], 'athlib/hungarian_score.py': ['hungarian'],
    'athlib/sportshall_score.py': ['sportshall'], 'athlib/wma/agegrader.py': ['wma2023', 'wma2015', 'aag', 'athlon'],
    'athlib/__init__.py': ['wma2023', 'wma2015', 'aag'], 'athlib/utils.py': ['schema', 'control'],
    'athlib/tyrving_score.py': ['control'], 'athlib/qkids_score.py': ['control'], 'athlib/bulgarian_score.py': ['control'],
    'athlib/implements.py': ['control', 'athlon'], 'athlib/uka/agegroups.py': ['control'], 'athlib/codes.py': [],
}
TREE_BIAS = {'modified': [], 'boosted': []}
CHANGED = {}


def baseline_commit():
    try:
        with open(os.path.join(common.VERIF_DIR, 'BASELINE_REPO_COMMIT')) as f:
            return f.read().strip()
    except Exception:
        return None


def changed_lines():
    """{absolute file: set(line numbers in the tree under test)} touched by the difference between the tree
    under test and the commit the evidence was recorded on (falls back to HEAD; {} without git)."""
    import subprocess
    out = {}
    for base in (baseline_commit(), 'HEAD'):
        if not base:
            continue
        try:
            p = subprocess.run(['git', '-C', common.REPO, 'diff', '-U0', base, '--', 'athlib'],
                               capture_output=True, text=True, timeout=30)
        except Exception:
            continue
        if p.returncode != 0:
            continue
        cur = None
        for l in p.stdout.splitlines():
            if l.startswith('+++ '):
                cur = l[6:].strip() if l.startswith('+++ b/') else None
            elif l.startswith('@@') and cur and cur.endswith('.py'):
                m = re.match(r'@@ -\d+(?:,\d+)? \+(\d+)(?:,(\d+))? @@', l)
                if m:
                    start = int(m.group(1)); n = int(m.group(2)) if m.group(2) is not None else 1
                    ls = out.setdefault(os.path.join(common.REPO, cur), set())
                    for x in range(start, start + max(n, 1)):
                        ls.add(x)
        break
    return out


def near_changed(key, changed, radius=4):
    ls = changed.get(key[0])
    if not ls:
        return False
    return any(abs(key[1] - x) <= radius for x in ls)


def apply_tree_bias():
    """Change-aware budget (a heuristic on *where the runs go*, never part of an oracle): if the working
    tree under test has uncommitted modifications in athlib/, the scenario groups that execute those
    files get about half of the scenarios.  A function of the tree only, so a run is still a pure
    function of (seed, tree); replay files are explicit anyway.  No git / clean tree: default weights."""
    global GROUP_WEIGHTS
    import subprocess
    try:
        p = subprocess.run(['git', '-C', common.REPO, 'status', '--porcelain', '--', 'athlib'],
                           capture_output=True, text=True, timeout=30)
        files = sorted(l[3:].strip() for l in p.stdout.splitlines() if l[:2].strip() and l[3:].strip().endswith('.py')) \
            if p.returncode == 0 else []
    except Exception:
        files = []
    ch = changed_lines()
    CHANGED.clear(); CHANGED.update(ch)
    files = sorted(set(files) | set(os.path.relpath(f, common.REPO) for f in ch))
    boosted = sorted(set(g for f in files for g in FILE_GROUPS.get(f, [])))
    TREE_BIAS['changed_lines'] = {os.path.relpath(f, common.REPO): len(v) for f, v in sorted(ch.items())}
    TREE_BIAS['modified'] = files
    TREE_BIAS['boosted'] = boosted
    if boosted:
        base = dict(DEFAULT_GROUP_WEIGHTS)
        tot = sum(base.values())
        for g in boosted:
            base[g] += tot / float(len(boosted))
        GROUP_WEIGHTS = sorted(base.items())
    else:
        GROUP_WEIGHTS = list(DEFAULT_GROUP_WEIGHTS)


def weighted(rng, pairs):
    tot = sum(w for _, w in pairs)
    x = rng.random() * tot
    for v, w in pairs:
        x -= w
        if x < 0:
            return v
    return pairs[-1][0]


ALL_DOCS = sorted(set(d for d, _ in DOC_PAIRS) | set([
    'sample-jsons/combined_performance_invalid2.json', 'sample-jsons/performance_invalid2.json',
    'sample-jsons/race_iffleymiles_2016_600mB.json', 'sample-jsons/race_iffleymiles_2016_mileA.json',
    'sample-jsons/race_invalid_athlete_external.json', 'sample-jsons/race_invalid_athlete_internal.json']))


def gen_cache_fill(rng, programs=None):
    """>= 20 distinct keys for each validation cache, drawn per scenario (so that the scenario's own
    calls sometimes hit and mostly miss a cache that is at its size limit)."""
    sv = [(s, v) for s in SCHEMAS for v in VALIDATORS]
    rng.shuffle(sv)
    va = [(d, s) for d in ALL_DOCS for s in SCHEMAS[:7]]
    rng.shuffle(va)
    n1 = rng.choice((20, 20, 21, 23)); n2 = rng.choice((20, 20, 21, 23))
    fill = ([c('utils.schema_valid', s, validator=V(v)) for s, v in sv[:n1]]
            + [c('utils.valid_against_schema', d, s) for d, s in va[:n2]])
    # with probability 1/2 the *newest* entry of a cache is a key one of the scenario's calls uses
    # (the eviction victim is the newest entry, so that is the entry other threads can pull away)
    if programs and rng.random() < 0.5:
        mine = [cl for p in programs for cl in p if cl['f'].startswith('utils.')]
        if mine:
            cl = rng.choice(mine)
            k = {kk: v for kk, v in cl['k'].items() if kk != 'expect_failure'}
            fill.append({'f': cl['f'], 'a': list(cl['a']), 'k': k})
    return fill




def gen_scenario(rng):
    scn = _gen_scenario(rng)
    if scn['variant'] == 'cachefull':
        scn['warm'] = gen_cache_fill(rng, scn['programs'])
    # knob randomisation ("buggify"): in 30 % of the scenarios every bounded-cache helper of athlib gets a
    # tiny bound, so that caches sit at their limit - and their eviction paths run - after two or three
    # calls instead of twenty (or 256).  A cache must be transparent at any size.
    if rng.random() < 0.3:
        scn['knobs'] = {'cache_max': rng.choice([2, 3, 5])}
    # extra warm-up: a few more calls of the families the scenario uses, ending (half of the time) with
    # one of the scenario's own calls - memo tables are then populated, and the entry a thread is about to
    # hit is the most recently stored one (the one a LIFO eviction, or an overwrite, takes away first)
    if scn['variant'] != 'first' and rng.random() < 0.5:
        groups = sorted(set(g for g in [scn['group']] if g in CATALOGUE)) or \
            sorted(set(gg for gg, _ in DEFAULT_GROUP_WEIGHTS))
        mine = [cl for p in scn['programs'] for cl in p]
        extra = []
        for _ in range(rng.randint(1, 6)):
            nc = near_call(rng, rng.choice(mine)) if (mine and rng.random() < 0.6) else None
            extra.append(nc or pick_call(rng, rng.choice(groups)))
        if mine and rng.random() < 0.7:
            extra.append(rng.choice(mine))
        scn['warm_extra'] = extra
    return scn


def apply_knobs(athlib, scn):
    return common.cap_size_knobs((scn.get('knobs') or {}).get('cache_max'))


def _gen_scenario(rng):
    variant = weighted(rng, VARIANTS)
    nthreads = 2 if rng.random() < 0.7 else 3
    grp = weighted(rng, GROUP_WEIGHTS)
    if variant == 'cachefull' and rng.random() < 0.85:
        grp = 'schema'
    mixed = rng.random() < 0.25
    equal = rng.random() < 0.3
    programs = []
    base_call = pick_call(rng, grp)
    for t in range(nthreads):
        ncalls = 1 if nthreads == 3 else (1 if rng.random() < 0.6 else 2)
        prog = []
        for i in range(ncalls):
            earlier = [cl for p in programs for cl in p] + prog
            if equal and i == 0:
                prog.append(base_call)
            elif earlier and rng.random() < 0.2:
                prog.append(rng.choice(earlier))        # same arguments again (same cache key, same table row)
            elif earlier and rng.random() < 0.4 and near_call(rng, earlier[-1]) is not None:
                prog.append(near_call(rng, rng.choice(earlier)) or pick_call(rng, grp))   # one argument changed
            else:
                g = weighted(rng, GROUP_WEIGHTS) if mixed else grp
                prog.append(pick_call(rng, g))
        programs.append(prog)
    if nthreads == 3 and rng.random() < 0.25:
        # A / B / A: two threads make the same call while a third makes a neighbouring one (the other gender,
        # another key of the same memo) - the shape in which a value looks unchanged to a re-check although
        # somebody replaced it and put it back in between
        a_ = programs[0][0]
        b_ = near_call(rng, a_) or programs[1][0]
        order = [a_, b_, a_]
        k_ = rng.randrange(3)
        order = order[k_:] + order[:k_]
        programs = [[cl] for cl in order]
    return {'variant': variant, 'programs': programs, 'group': grp if not mixed else 'mixed'}


# ---------------------------------------------------------------------------------------------
# executing calls

_hex = re.compile(r'0x[0-9a-fA-F]+')


def _resolve(x, jsonschema):
    if isinstance(x, dict) and '$validator' in x:
        return getattr(jsonschema, x['$validator'])
    if isinstance(x, dict) and '$date' in x:
        import datetime
        return datetime.date(*[int(p_) for p_ in x['$date'].split('-')])
    return x


def make_callable(athlib, call):
    import jsonschema
    obj = athlib
    try:
        for part in call['f'].split('.'):
            obj = getattr(obj, part)
    except AttributeError as e:
        # a tree without this public name: the same outcome in the oracle runs and under every schedule
        err = ('exc', 'AttributeError', str(e)[:160])
        return lambda: err
    a = [_resolve(x, jsonschema) for x in call['a']]
    k = {kk: _resolve(v, jsonschema) for kk, v in call['k'].items()}
    fn = obj
    def run():
        try:
            v = fn(*a, **k)
            return ('ok', repr(v))
        except Exception as e:
            msg = _hex.sub('0x?', str(e))
            if len(msg) > 160:
                msg = msg[:160] + '...#' + hashlib.sha1(msg.encode()).hexdigest()[:10]
            return ('exc', type(e).__name__, msg)
    return run


def warm_up(athlib, scn):
    """Deterministic single-threaded warm-up defining the base state of a scenario."""
    variant = scn['variant']
    apply_knobs(athlib, scn)
    if variant == 'first':
        return
    import jsonschema
    calls = [c('athlon_score', 'M', '100', 11.0), c('athlon_performance_needed', 'F', 'HJ', 900),
             c('hungarian_score', 'M', 'OUT', '100', 11.0), c('sportshall_score', 'SLJ', '2.00'),
             c('wma_age_factor', 'm', 50, '5K'), c('wma_age_factor', 'f', 60, '10K', year=2015),
             c('wma_world_best', 'f', '7K'), c('wma_athlon_age_factor', 'M', 66, '60H'),
             c('athlon_score', 'M', '100', 12.5, age=50)]
    if variant == 'cachefull':
        if 'warm' in scn:
            calls += scn['warm']
        else:
            # replays recorded by the first version of the engine: fixed fill of 22 keys per cache
            for i in range(22):
                calls.append(c('utils.schema_valid', SCHEMAS[i % len(SCHEMAS)],
                               validator=V(VALIDATORS[(i // len(SCHEMAS)) % 4])))
            for d, s in DOC_PAIRS[:22]:
                calls.append(c('utils.valid_against_schema', d, s))
    calls += scn.get('warm_extra') or []
    for cl in calls:
        make_callable(athlib, cl)()


def linearizations(lens):
    """All call-atomic sequential orders respecting each thread's program order."""
    seq = []
    for t, n in enumerate(lens):
        seq += [t] * n
    seen = set()
    for p in itertools.permutations(seq):
        if p not in seen:
            seen.add(p)
            yield p


class _Recorder(object):
    """sys.settrace recorder for the sequential oracle runs (line keys + write lines + every line of the
    functions entered, executed or not: code that only runs under an interleaving has no line in any
    sequential trace, yet a pre-emption may be needed exactly there)."""
    def __init__(self, adir):
        self.adir = adir
        self.cur = None
        self.wlines = set()
        self.codes = set()
        self.static = set()
        self.blines = set()
        self.opc = {}
        self.opw = {}
    def glob(self, frame, event, arg):
        code = frame.f_code
        if code.co_filename.startswith(self.adir):
            if code not in self.codes:
                self.codes.add(code)
                for ln, n in thrsched.op_counts(code).items():
                    if n > self.opc.get((code.co_filename, ln), 0):
                        self.opc[(code.co_filename, ln)] = n
                for ln, ks in thrsched.op_after_writes(code).items():
                    self.opw.setdefault((code.co_filename, ln), ks)
                try:
                    for _, _, ln in code.co_lines():
                        if ln is not None:
                            self.static.add((code.co_filename, ln))
                except Exception:
                    pass
            return self.local
        return None
    def local(self, frame, event, arg):
        if event == 'line':
            code = frame.f_code
            key = (code.co_filename, frame.f_lineno)
            self.cur.append(key)
            if frame.f_lineno in thrsched.write_lines(code):
                self.wlines.add(key)
            if frame.f_lineno in thrsched.branch_lines(code):
                self.blines.add(key)
        return self.local


def run_epilogue(athlib, epilogue):
    """Sequential calls made after the threads are gone (no tracing): corruption of shared state that
    outlives the race shows here even when every racing call happened to return the right answer."""
    return [make_callable(athlib, cl)() for cl in (epilogue or [])]


def run_sequential(athlib, programs, order, epilogue=None):
    """In the current (forked) process: execute calls in `order`; returns outcomes, traces."""
    rec = _Recorder(common.ATHLIB_DIR)
    idx = [0] * len(programs)
    outs = [[None] * len(p) for p in programs]
    traces = [[] for _ in programs]
    static = [set() for _ in programs]
    for t in order:
        i = idx[t]; idx[t] += 1
        fn = make_callable(athlib, programs[t][i])
        rec.cur = []
        rec.codes = set(); rec.static = set()
        sys.settrace(rec.glob)
        try:
            outs[t][i] = fn()
        finally:
            sys.settrace(None)
        traces[t].extend(rec.cur)
        static[t] |= rec.static
    epi = run_epilogue(athlib, epilogue)
    return outs, traces, (rec.wlines, static, rec.blines, epi, (rec.opc, rec.opw))


def run_schedule(athlib, programs, sched_spec, step_cap, record=False, epilogue=None):
    """In the current (forked) process: run the programs under the baton scheduler."""
    plan = {}
    for p in sched_spec['preemptions']:
        key = (os.path.join(common.ATHLIB_DIR, p['file']), p['line'])
        plan.setdefault(p['thread'], {}).setdefault(key, {})[p['occ']] = (p['to'], p['op']) if p.get('op') else p['to']
    progs = [[make_callable(athlib, cl) for cl in prog] for prog in programs]
    s = thrsched.Sched(progs, plan=plan, first=sched_spec['first'], pref=sched_spec['pref'],
                       step_cap=step_cap, athlib_dir=common.ATHLIB_DIR, record=record)
    status = s.run()
    epi = None
    if status == 'ok' and epilogue:
        thrsched._current[0] = None     # a lock left held by a finished thread is an error, not a wait
        epi = run_epilogue(athlib, epilogue)
    return {'status': status, 'out': s.out, 'switches': s.switches, 'digest': s.digest,
            'steps': s.nsteps, 'overlap': s.overlap_switches, 'lock_blocks': s.lock_blocks, 'epi': epi,
            'op_switches': s.op_switches}


def quiet_stdout():
    try:
        sys.stdout.flush()
    except Exception:
        pass
    dn = os.open(os.devnull, os.O_WRONLY)
    os.dup2(dn, 1)
    os.close(dn)


# ---------------------------------------------------------------------------------------------
# schedules

SAMPLERS = ('step', 'line', 'write', 'branch', 'static', 'opcode', 'sweep')
SAMPLER_WEIGHTS = [('step', 25), ('line', 25), ('write', 25), ('branch', 15), ('static', 10)]


def draw_schedule(rng, nthreads, traces, wlines, used=None, focus=None):
    """One seeded schedule.  `used` (per scenario) remembers the pre-emption sets already tried, so that
    the K schedules of a scenario are K *different* ones (sampling without replacement)."""
    for attempt in range(6):
        spec = _draw_schedule(rng, nthreads, traces, wlines, focus)
        if used is None:
            return spec
        key = (spec['first'], tuple((p['thread'], p['file'], p['line'], p['occ'], p['to']) for p in spec['preemptions']))
        if key not in used or not spec['preemptions']:
            used.add(key)
            return spec
    return spec


def draw_op_schedule(rng, nthreads, traces, wlines, focus=None):
    """A schedule whose pre-emptions land INSIDE a source line, before its n-th bytecode instruction: a
    test and the use of what it tested written on one line (`if k in memo: return memo[k]`,
    `x = memo[k] if k in memo else ...`, `self.i += 1`) opens no window at any line boundary."""
    for attempt in range(4):
        spec = _draw_schedule(rng, nthreads, traces, wlines, focus)
        if spec['preemptions']:
            break
    oc = getattr(wlines, 'opcounts', None) or {}
    ow = getattr(wlines, 'opwrites', None) or {}
    some = False
    for i, p_ in enumerate(spec['preemptions']):
        if rng.random() < 0.8 or (not some and i == len(spec['preemptions']) - 1):
            fk = (os.path.join(common.ATHLIB_DIR, p_['file']), p_['line'])
            n = oc.get(fk, 3)
            if n >= 2:
                aw = ow.get(fk)
                # mostly right after a store or a call inside the line (two stores on one line publish a pair
                # in two steps; a call on the line may have changed what the rest of the line assumes)
                p_['op'] = rng.choice(aw) if (aw and rng.random() < 0.6) else rng.randint(2, max(2, n))
                some = True
    spec['sampler'] = 'opcode'
    return spec


def _draw_schedule(rng, nthreads, traces, wlines, focus=None):
    """traces[t] = the distinct line traces [(file, line), ...] thread t's program had sequentially."""
    d = weighted(rng, [(0, 5), (1, 35), (2, 45), (3, 15)])
    sampler = weighted(rng, SAMPLER_WEIGHTS)
    first = rng.randrange(nthreads)
    pref = list(range(nthreads)); rng.shuffle(pref)
    pre = []
    for _ in range(d):
        t = rng.randrange(nthreads)
        if d >= 2 and pre and rng.random() < 0.5:
            # ping-pong: pre-empt the thread the previous pre-emption switched to
            t = pre[-1]['to']
        if not traces[t]:
            continue
        tr = rng.choice(traces[t])
        if not tr:
            continue
        if pre and rng.random() < 0.3:
            # the same code region as the previous pre-emption (within 3 lines of it, in this thread's own
            # execution): the windows of two threads that collide are mostly the same few lines
            pf = os.path.join(common.ATHLIB_DIR, pre[-1]['file']); pl_ = pre[-1]['line']
            cand = [j for j, k2 in enumerate(tr) if k2[0] == pf and abs(k2[1] - pl_) <= 3]
            if cand:
                i = rng.choice(cand)
                key = tr[i]
                occ = sum(1 for k2 in tr[:i + 1] if k2 == key)
                others = [x for x in range(nthreads) if x != t]
                pre.append({'thread': t, 'file': os.path.relpath(key[0], common.ATHLIB_DIR), 'line': key[1],
                            'occ': occ, 'to': rng.choice(others)})
                continue
        st = getattr(wlines, 'static', None)
        if focus and rng.random() < 0.5:
            # near the lines that differ from the baseline commit
            cand = [j for j, k2 in enumerate(tr) if k2 in focus]
            if cand and rng.random() < 0.8:
                # line-uniform over the distinct focus lines (a once-executed publishing line weighs as much
                # as the 70-times-executed body of the loop before it), then over that line's occurrences
                key = rng.choice(sorted(set(tr[j] for j in cand)))
                occs = [j for j in cand if tr[j] == key]
                i = rng.choice(occs)
                occ = sum(1 for k2 in tr[:i + 1] if k2 == key)
            else:
                fl = sorted(k2 for k2 in focus if st and tuple(k2) in set(map(tuple, st[t])))
                if not fl:
                    fl = sorted(focus)
                key = rng.choice(fl); occ = 1
            others = [x for x in range(nthreads) if x != t]
            pre.append({'thread': t, 'file': os.path.relpath(key[0], common.ATHLIB_DIR), 'line': key[1],
                        'occ': occ, 'to': rng.choice(others)})
            continue
        if sampler == 'static' and st and st[t] and rng.random() < 0.8:
            # any line of any function this thread entered - executed sequentially or not - first time reached
            key = tuple(rng.choice(st[t]))
            others = [x for x in range(nthreads) if x != t]
            pre.append({'thread': t, 'file': os.path.relpath(key[0], common.ATHLIB_DIR), 'line': key[1],
                        'occ': rng.choice([1, 1, 1, 2]), 'to': rng.choice(others)})
            continue
        bl = getattr(wlines, 'branches', None)
        if sampler == 'branch' and bl:
            # the line executed right after a conditional test (first line of the branch taken): where a
            # check-then-act window opens.  Uniform over the distinct (test line, next line) pairs.
            pairs = {}
            for j in range(len(tr) - 1):
                if tr[j] in bl and tr[j + 1] != tr[j]:
                    pairs.setdefault((tr[j], tr[j + 1]), []).append(j + 1)
            if pairs:
                pk = rng.choice(sorted(pairs))
                i = rng.choice(pairs[pk])
            else:
                i = rng.randrange(len(tr))
        elif sampler == 'step':
            i = rng.randrange(len(tr))
        elif sampler == 'line':
            lines = sorted(set(tr))
            key = rng.choice(lines)
            occs = [j for j, k in enumerate(tr) if k == key]
            i = rng.choice(occs)
        else:
            w = [j for j, k in enumerate(tr) if k in wlines]
            w2 = [j + 1 for j in w if j + 1 < len(tr)]
            pool = w + w2
            if pool and rng.random() < 0.9:
                i = rng.choice(pool)
            else:
                i = rng.randrange(len(tr))
        key = tr[i]
        occ = sum(1 for k in tr[:i + 1] if k == key)
        others = [x for x in range(nthreads) if x != t]
        to = rng.choice(others)
        pre.append({'thread': t, 'file': os.path.relpath(key[0], common.ATHLIB_DIR), 'line': key[1],
                    'occ': occ, 'to': to})
    return {'first': first, 'pref': pref, 'preemptions': pre, 'sampler': sampler}


# ---------------------------------------------------------------------------------------------
# one scenario = oracle + K schedules, executed in a child forked from the pristine worker

def violation_class(programs, accepted, res):
    """None if the run is fine, else (class string, detail dict)."""
    if res['status'] in ('deadlock', 'stepcap'):
        return ('%s' % res['status'], {'status': res['status'], 'steps': res['steps']})
    if res['status'] != 'ok':
        return None
    for t, prog in enumerate(programs):
        for i, cl in enumerate(prog):
            got = res['out'][t][i] if res['out'][t] is not None and i < len(res['out'][t]) else None
            if got not in accepted[t][i]:
                kind = got[0] if got else 'missing'
                what = got[1] if (got and got[0] == 'exc') else 'value'
                return ('wrong-outcome:%s:%s' % (cl['f'], what),
                        {'thread': t, 'call_index': i, 'call': cl, 'got': got,
                         'accepted': sorted(accepted[t][i])})
    epi_acc = getattr(accepted, 'epi', None)
    if epi_acc and res.get('epi') is not None:
        for j, cl in enumerate(accepted.epi_calls):
            got = res['epi'][j] if j < len(res['epi']) else None
            if got not in epi_acc[j]:
                what = got[1] if (got and got[0] == 'exc') else 'value'
                return ('wrong-outcome-after-the-threads:%s:%s' % (cl['f'], what),
                        {'epilogue_index': j, 'call': cl, 'got': got, 'accepted': sorted(epi_acc[j])})
    return None


class Accepted(list):
    """accepted[t][i] = outcomes call i of thread t has in some call-atomic sequential order; .epi[j] the same
    for the j-th epilogue call (made sequentially after all the others), .epi_calls the calls."""
    epi = None
    epi_calls = None


class WLines(set):
    """the write lines of a scenario, plus .static[t]: every line of every athlib function thread t entered"""
    static = None
    branches = None
    opcounts = None
    opwrites = None


def oracle(athlib, programs, wall_cap=60.0, epilogue=None):
    """Accepted outcome set per call + per-thread traces, from sequential runs in forks.

    traces[t] is the list of *distinct* line traces thread t's program had over all call-atomic
    sequential orders (running first it takes the miss / table-building path, running after the
    others it takes the hit / already-built path): the samplers draw positions from any of them.
    """
    lens = [len(p) for p in programs]
    accepted = Accepted([set() for _ in p] for p in programs)
    accepted.epi_calls = list(epilogue or [])
    accepted.epi = [set() for _ in accepted.epi_calls]
    traces = [[] for _ in programs]
    wlines = set()
    static = [set() for _ in programs]
    blines = set()
    opcounts = {}
    opwrites = {}
    norders = 0
    for order in linearizations(lens):
        def job(order=order):
            quiet_stdout()
            return run_sequential(athlib, programs, order, epilogue)
        outs, trs, (wl, st, bl, epi, opc) = common.fork_call(job, wall_cap=wall_cap, what='sequential oracle run')
        norders += 1
        opc, opw = opc
        for k_, n_ in opc.items():
            if n_ > opcounts.get(k_, 0):
                opcounts[k_] = n_
        for k_, ks_ in opw.items():
            opwrites.setdefault(k_, ks_)
        for j, o in enumerate(epi):
            accepted.epi[j].add(o)
        wlines |= wl
        blines |= bl
        for t in range(len(programs)):
            static[t] |= st[t]
        for t in range(len(programs)):
            for i in range(lens[t]):
                accepted[t][i].add(outs[t][i])
            if trs[t] not in traces[t]:
                traces[t].append(trs[t])
    for t in range(len(programs)):
        traces[t].sort(key=lambda tr: (-len(tr), tr))
    wlines = WLines(wlines)
    wlines.static = [sorted(x) for x in static]
    wlines.branches = blines
    wlines.opcounts = opcounts
    wlines.opwrites = opwrites
    return accepted, traces, wlines, norders


def scenario_job(athlib, scn, sched_seeds, opts):
    """Runs inside the scenario child (base state prepared here). Returns a result dict."""
    quiet_stdout()
    warm_up(athlib, scn)
    programs = scn['programs']
    epilogue = scn.get('epilogue') or []
    accepted, traces, wlines, norders = oracle(athlib, programs, epilogue=epilogue)
    solo_steps = sum(len(tt[0]) for tt in traces if tt)
    exec_lines = set()
    for tt in traces:
        for t in tt:
            for (f, l) in t:
                exec_lines.add('%s:%d' % (os.path.relpath(f, common.ATHLIB_DIR), l))
    step_cap = max(300000, 30 * solo_steps)
    cnt = Counter()
    cnt.inc('oracle_orders', norders)
    sigs = set(); sigs_nt = set()
    violations = []
    samples = []
    fnsw = Counter()
    import random
    rd = 0
    used = set()
    stalls = 0
    # change-aware budget, line level: if the tree under test differs from the baseline commit, scenarios
    # whose calls execute (or whose functions contain) lines near the difference get 1.5 K schedules, the
    # others K/2, and half of a touching scenario's pre-emptions are placed near the changed lines
    focus = None
    k_op = len(sched_seeds) // 8        # pre-emptions inside a line: K/8 schedules on top of the K line-level ones
    if CHANGED:
        touched = set()
        for tt in traces:
            for tr in tt:
                touched.update(k2 for k2 in set(tr) if near_changed(k2, CHANGED))
        for st_ in (wlines.static or []):
            touched.update(tuple(k2) for k2 in st_ if near_changed(tuple(k2), CHANGED))
        if touched:
            focus = touched
            k_op = len(sched_seeds) // 3
            cnt.inc('scenarios_touching_changed_lines')
            sched_seeds = list(sched_seeds) + [common.run_seed(PROP, 'extra', sched_seeds[0], j) for j in range(len(sched_seeds) // 2)]
        else:
            # (not K/4: a change at module level - a table, a constant - is executed by no call at all)
            sched_seeds = list(sched_seeds)[:max(2, len(sched_seeds) // 2)]
    n_line = len(sched_seeds)
    sched_seeds = list(sched_seeds) + [common.run_seed(PROP, 'op', sched_seeds[0], j) for j in range(max(2, k_op))]
    given = {}
    sweep = opts.get('sweep')
    if not sweep and focus and opts.get('sweep_every') and opts.get('idx') is not None:
        # a scenario that executes lines near a difference from the baseline commit: four times as often
        sw4 = max(1, opts['sweep_every'] // 4)
        sweep = opts['idx'] % sw4 == (opts['idx'] // sw4 * 3 + 1) % sw4
    if sweep:
        # systematic part ("every interleaving ... up to a bound"): for this scenario EVERY single pre-emption
        # is tried - each thread started first and pre-empted before the first and before the last execution
        # of every distinct source line it runs on any of its sequential paths, in favour of every other
        # thread.  Seeded search decides which scenarios; within them nothing at depth one is left to chance.
        n = len(programs)
        specs = []
        for t in range(n):
            seen_pos = set()
            for tr in traces[t]:
                last = {}
                for key in tr:
                    last[key] = last.get(key, 0) + 1
                for key, cntk in last.items():
                    for occ in sorted(set((1, cntk))):
                        if (key, occ) in seen_pos:
                            continue
                        seen_pos.add((key, occ))
                        for to in range(n):
                            if to != t:
                                specs.append({'first': t, 'pref': [t] + [x for x in range(n) if x != t],
                                              'preemptions': [{'thread': t, 'file': os.path.relpath(key[0], common.ATHLIB_DIR),
                                                               'line': key[1], 'occ': occ, 'to': to}], 'sampler': 'sweep'})
        specs.sort(key=lambda sp: json.dumps(sp, sort_keys=True))
        for j, sp in enumerate(specs[:opts.get('sweep_cap', 600)]):
            ps = common.run_seed(PROP, 'sweep', sched_seeds[0], j)
            given[ps] = sp
        cnt.inc('scenarios_swept_at_depth_one')
        cnt.inc('sweep_positions_beyond_cap', max(0, len(specs) - opts.get('sweep_cap', 600)))
        sched_seeds = list(sched_seeds) + list(given)
    for k, sseed in enumerate(sched_seeds):
        rng = random.Random(sseed)
        spec = given[sseed] if sseed in given else \
            draw_schedule(rng, len(programs), traces, wlines, used, focus) if k < n_line \
            else draw_op_schedule(rng, len(programs), traces, wlines, focus)
        res = run_one(athlib, programs, spec, step_cap, epilogue=epilogue)
        rd = (rd + common.run_digest_term(sseed, [res['status'], common.canon_outcome(res['out']), res['switches'], res['digest'],
                                                  common.canon_outcome(res.get('epi'))])) & ((1 << 64) - 1)
        cnt.inc('runs')
        cnt.inc('epilogue_calls', len(res.get('epi') or []))
        cnt.inc('steps', res['steps'])
        cnt.inc('preemptions_planned', len(spec['preemptions']))
        cnt.inc('preemptions_fired', len([s for s in res['switches'] if s[1] != '<lock>']))
        cnt.inc('preemptions_fired_overlap', res['overlap'])
        cnt.inc('preemptions_fired_inside_a_line', res.get('op_switches', 0))
        cnt.inc('sampler_' + spec['sampler'])
        cnt.inc('lock_blocks', res['lock_blocks'])
        cnt.inc('status_' + str(res['status']))
        for s in res['switches']:
            fnsw.inc('%s:%d' % (s[1], s[2]))
        sig = hash((json.dumps(scn, sort_keys=True), tuple(res['switches'])))
        sigs.add(sig)
        if res['overlap']:
            sigs_nt.add(sig)
        if res['status'] == 'stalled':
            # a thread blocked on a primitive the cooperative seam did not catch: neither a pass nor a
            # violation.  Three of them in one scenario and the rest of its schedules are not started.
            cnt.inc('skipped_unschedulable')
            stalls += 1
            if stalls >= 3:
                cnt.inc('skipped_unschedulable', len(sched_seeds) - k - 1)
                break
            continue
        vc = violation_class(programs, accepted, res)
        if vc is not None:
            cnt.inc('violating_runs')
            if len(violations) < 3 and vc[0] not in [v['class'] for v in violations]:
                mspec, mprogs, mres, macc = minimise(athlib, programs, spec, accepted, vc[0], step_cap, epilogue) \
                    if opts.get('minimise', True) else (spec, programs, res, accepted)
                vc2 = violation_class(mprogs, macc, mres) or vc
                violations.append({'class': vc[0], 'detail': vc2[1],
                                   'scenario': dict(scn, programs=mprogs, epilogue=list(macc.epi_calls or [])),
                                   'schedule': mspec, 'digest': mres['digest'], 'switches': mres['switches'],
                                   'sched_seed': sseed, 'minimised_from': {'preemptions': len(spec['preemptions']),
                                                                           'threads': len(programs)}})
        elif len(samples) < 1 and res['overlap']:
            samples.append({'scenario': scn, 'schedule': spec, 'switches': res['switches'],
                            'outcomes': res['out'], 'steps': res['steps']})
    return {'cnt': cnt, 'sigs': sigs, 'sigs_nt': sigs_nt, 'violations': violations, 'samples': samples,
            'fnsw': fnsw, 'exec_lines': exec_lines, 'rd': rd}


def run_one(athlib, programs, spec, step_cap, wall_cap=40.0, epilogue=None):
    def job():
        return run_schedule(athlib, programs, spec, step_cap, epilogue=epilogue)
    return common.fork_call(job, wall_cap=wall_cap, what='schedule run')


def _compact(programs, spec):
    """Remove threads with an empty program, renumbering the schedule."""
    keep = [t for t, p in enumerate(programs) if p]
    if len(keep) == len(programs) or len(keep) < 1:
        return programs, spec
    m = {old: new for new, old in enumerate(keep)}
    pre = [dict(p, thread=m[p['thread']], to=m[p['to']]) for p in spec['preemptions']
           if p['thread'] in m and p['to'] in m]
    pref = [m[t] for t in spec['pref'] if t in m]
    first = m.get(spec['first'], pref[0])
    return [programs[t] for t in keep], dict(spec, preemptions=pre, pref=pref, first=first)


def minimise(athlib, programs, spec, accepted, vclass, step_cap, epilogue=None):
    """Shrink a failing (scenario, schedule): drop pre-emptions, drop threads, cut programs to one
    call - keeping a step only if the *same violation class* persists under a freshly computed
    oracle for the shrunk scenario.  Returns (schedule, programs, result, accepted)."""
    epi = [list(epilogue or [])]
    def fails(progs, sp, acc=None):
        if acc is None:
            acc = oracle(athlib, progs, epilogue=epi[0])[0]
        res = run_one(athlib, progs, sp, step_cap, epilogue=epi[0])
        vc = violation_class(progs, acc, res)
        return (vc is not None and vc[0] == vclass), res, acc
    best_p, best_s, best_a, best_r = programs, dict(spec), accepted, None
    # 0. the epilogue: none at all if the violation shows in a racing call, else the one call that shows it
    if epi[0]:
        cands = [[]] if not vclass.startswith('wrong-outcome-after-the-threads') else [[cl] for cl in epi[0]]
        keep = epi[0]
        for cand in cands:
            epi[0] = cand
            try:
                ok, res, acc = fails(best_p, best_s)
            except HarnessError:
                ok = False
            if ok:
                keep = cand; best_a, best_r = acc, res
                break
        epi[0] = keep
    # 1. pre-emptions
    i = 0
    while i < len(best_s['preemptions']):
        pre = best_s['preemptions']
        cand = dict(best_s, preemptions=pre[:i] + pre[i + 1:])
        ok, res, _ = fails(best_p, cand, best_a)
        if ok:
            best_s, best_r = cand, res
        else:
            i += 1
    # 2. whole threads, 3. single calls
    cands = []
    for t in range(len(best_p)):
        cands.append(('drop', t))
    for t in range(len(best_p)):
        if len(best_p[t]) > 1:
            for i in range(len(best_p[t])):
                cands.append(('keep1', t, i))
    for cnd in cands:
        progs = [list(p) for p in best_p]
        if cnd[0] == 'drop':
            if not progs[cnd[1]] or sum(1 for p in progs if p) <= 1:
                continue
            progs[cnd[1]] = []
        else:
            if len(progs[cnd[1]]) <= 1:
                continue
            progs[cnd[1]] = [progs[cnd[1]][cnd[2]]]
        try:
            ok, res, acc = fails(progs, best_s)
        except HarnessError:
            continue
        if ok:
            best_p, best_r, best_a = progs, res, acc
    # 4. renumber
    cp, cs = _compact(best_p, best_s)
    if cp is not best_p:
        try:
            ok, res, acc = fails(cp, cs)
            if ok:
                best_p, best_s, best_r, best_a = cp, cs, res, acc
        except HarnessError:
            pass
    if best_r is None:
        best_r = run_one(athlib, best_p, best_s, step_cap, epilogue=epi[0])
    return best_s, best_p, best_r, best_a


# ---------------------------------------------------------------------------------------------
# driver

TIERS = {
    # scenarios, schedules per scenario, wall cap for the pool
    'quick': {'scenarios': 1800, 'k': 24, 'wall': 1200, 'det': 24, 'sweep_every': 60, 'sweep_cap': 400},
    'thorough': {'scenarios': 24000, 'k': 32, 'wall': 14400, 'det': 192, 'sweep_every': 24, 'sweep_cap': 1200},
}


def gen_epilogue(rng, scn):
    """Calls made sequentially once every thread has finished: the scenario's own calls again, neighbours
    of them (other rows of the same tables, other keys of the same caches) and a fresh call or two of the
    same family.  Shared state that a race left half-built or overwritten answers these wrongly even when
    every racing call returned the right value."""
    mine = []
    for p_ in scn['programs']:
        for cl in p_:
            if cl not in mine:
                mine.append(cl)
    epi = [cl for cl in mine if rng.random() < 0.75]
    for _ in range(rng.randint(1, 3)):
        nc = near_call(rng, rng.choice(mine)) if mine else None
        if nc is not None:
            epi.append(nc)
    grp = scn.get('group')
    if grp in CATALOGUE:
        for _ in range(rng.randint(0, 2)):
            epi.append(pick_call(rng, grp))
    rng.shuffle(epi)
    return epi[:7]


def scenario_for(master, idx):
    rng = common.rng_for(PROP, master, 'scn', idx)
    scn = gen_scenario(rng)
    # (a stream of its own: the scenarios are what they were before epilogues existed)
    scn['epilogue'] = gen_epilogue(common.rng_for(PROP, master, 'epi', idx), scn)
    return scn


def sched_seeds_for(master, idx, k):
    return [common.run_seed(PROP, master, 'run', idx, j) for j in range(k)]


def worker(master, n_scn, k, opts):
    def w(wi, nw):
        athlib, nlocks = prepare_athlib()
        agg = {'cnt': Counter(), 'sigs': set(), 'sigs_nt': set(), 'violations': [], 'samples': [],
               'fnsw': Counter(), 'by_group': Counter(), 'by_variant': Counter(), 'harness_errors': [],
               'exec_lines': set(), 'rd': 0}
        agg['cnt'].inc('lock_seam_rebound', nlocks if wi == 0 else 0)
        t0 = time.monotonic()
        budget = opts.get('budget_s')
        for idx in range(wi, n_scn, nw):
            if budget and time.monotonic() - t0 > budget:
                agg['cnt'].inc('scenarios_not_started_budget')
                continue
            scn = scenario_for(master, idx)
            seeds = sched_seeds_for(master, idx, k)
            # every SWEEP_EVERY-th scenario is also swept systematically at depth one (residue rotated so that
            # the swept scenarios are spread over all workers)
            sw = opts.get('sweep_every')
            o2 = dict(opts, idx=idx, sweep=bool(sw) and idx % sw == (idx // sw * 7 + 5) % sw)
            def job(scn=scn, seeds=seeds, o2=o2):
                return scenario_job(athlib, scn, seeds, o2)
            try:
                try:
                    r = common.fork_call(job, wall_cap=600.0, what='scenario %d' % idx)
                except HarnessError:
                    r = common.fork_call(job, wall_cap=600.0, what='scenario %d (retry)' % idx)
            except HarnessError as e:
                agg['harness_errors'].append('scenario %d: %s' % (idx, str(e)[:2000]))
                continue
            agg['cnt'].merge(r['cnt']); agg['cnt'].inc('scenarios')
            agg['sigs'] |= r['sigs']; agg['sigs_nt'] |= r['sigs_nt']
            agg['fnsw'].merge(r['fnsw'])
            agg['exec_lines'] |= r['exec_lines']
            agg['rd'] = (agg['rd'] + r['rd']) & ((1 << 64) - 1)
            agg['by_group'].inc(scn['group']); agg['by_variant'].inc(scn['variant'])
            for v in r['violations']:
                v['scenario_index'] = idx
                if len(agg['violations']) < 40:
                    agg['violations'].append(v)
            if len(agg['samples']) < 2:
                agg['samples'] += r['samples']
        return agg
    return w


def determinism_selftest(master, n, k=3):
    """Same (scenario, schedule) twice in-process-tree and once in a fresh interpreter with another
    PYTHONHASHSEED: switch logs, outcomes and digests must be identical."""
    import subprocess
    idxs = list(range(0, n))
    def local(wi, nw):
        athlib, _ = prepare_athlib()
        out = {}
        for idx in idxs[wi::nw]:
            out[idx] = det_fingerprint(athlib, master, idx, k)
        return out
    a = {}
    for part in common.run_pool(local, min(common.ncpu(), max(1, n)), wall_cap=900):
        a.update(part)
    b = {}
    for part in common.run_pool(local, 1 if n < 8 else 3, wall_cap=1800):
        b.update(part)
    env = dict(os.environ, VERIF_HASHSEED='12345', PYTHONHASHSEED='12345', PYTHONDONTWRITEBYTECODE='1')
    sub_idxs = idxs[:max(4, n // 4)]
    p = subprocess.run([sys.executable, os.path.join(common.VERIF_DIR, 'run_check.py'), '--det-fingerprint',
                        PROP, str(master), ','.join(map(str, sub_idxs)), str(k)],
                       env=env, capture_output=True, text=True, timeout=1800)
    if p.returncode != 0:
        raise HarnessError('determinism sub-interpreter failed: %s' % p.stderr[-2000:])
    cfp = json.loads(p.stdout.strip().splitlines()[-1])
    diverged = [i for i in idxs if a[i] != b[i]]
    diverged += [int(i) for i in cfp if cfp[i] != a[int(i)]]
    return {'checked': len(idxs) * 2 + len(cfp), 'diverged': len(diverged), 'diverged_idx': diverged[:5]}


def prepare_athlib():
    athlib = common.import_athlib()
    import athlib.utils  # noqa
    mods = [m for name, m in sorted(sys.modules.items()) if name == 'athlib' or name.startswith('athlib.')]
    n = thrsched.install_lock_seam(mods)
    apply_tree_bias()
    # every run happens in a forked (grand)child: keep the garbage collector from touching the ~90 MB
    # of imported objects there (copy-on-write page copies were a quarter of the cost of a run)
    import gc
    gc.collect(); gc.freeze()
    return athlib, n


def det_fingerprints(prop, master, idxs, k):
    athlib, _ = prepare_athlib()
    return {str(i): det_fingerprint(athlib, master, i, k) for i in idxs}


def det_fingerprint(athlib, master, idx, k):
    scn = scenario_for(master, idx)
    seeds = sched_seeds_for(master, idx, k)
    def job():
        quiet_stdout()
        warm_up(athlib, scn)
        epi = scn.get('epilogue') or []
        accepted, traces, wlines, norders = oracle(athlib, scn['programs'], epilogue=epi)
        import random
        fp = []
        used = set()
        for s in seeds:
            spec = draw_schedule(random.Random(s), len(scn['programs']), traces, wlines, used)
            res = run_one(athlib, scn['programs'], spec, 300000, epilogue=epi)
            fp.append([res['status'], common.canon_outcome(res['out']), res['switches'], res['digest'], res['steps'],
                       common.canon_outcome(res.get('epi'))])
        # and one schedule that pre-empts inside a line (instruction events must count the same everywhere)
        spec = draw_op_schedule(random.Random(seeds[0] ^ 0x5bd1e995), len(scn['programs']), traces, wlines)
        res = run_one(athlib, scn['programs'], spec, 300000, epilogue=epi)
        fp.append([res['status'], common.canon_outcome(res['out']), res['switches'], res['digest'], res['steps']])
        return common.digest_of([scn, common.canon_outcome([[sorted(x) for x in a] for a in accepted]),
                                 common.canon_outcome([sorted(x) for x in accepted.epi]), fp])
    return common.fork_call(job, wall_cap=300.0, what='det fingerprint %d' % idx)


def main(tier_, replay=None):
    t0 = time.time()
    master = common.master_seed()
    cfg = dict(TIERS[tier_])
    if os.environ.get('VERIF_SCENARIOS'):
        cfg['scenarios'] = int(os.environ['VERIF_SCENARIOS'])
    opts = {'minimise': True, 'sweep_every': cfg.get('sweep_every'), 'sweep_cap': cfg.get('sweep_cap', 600)}
    if os.environ.get('VERIF_BUDGET_S'):
        opts['budget_s'] = float(os.environ['VERIF_BUDGET_S'])
    print('C16 thrsim tier=%s seed=%d scenarios=%d x %d schedules, repo=%s' %
          (tier_, master, cfg['scenarios'], cfg['k'], common.REPO), flush=True)
    nw = common.ncpu()
    apply_tree_bias()
    if TREE_BIAS['boosted']:
        print('C16: uncommitted changes in %s -> scenario groups %s get about half of the budget' %
              (TREE_BIAS['modified'], TREE_BIAS['boosted']), flush=True)
    parts = common.run_pool(worker(master, cfg['scenarios'], cfg['k'], opts), nw, wall_cap=cfg['wall'])
    cnt = Counter(); fnsw = Counter(); byg = Counter(); byv = Counter()
    sigs = set(); sigs_nt = set(); viols = []; samples = []; herr = []; exec_lines = set()
    rd = 0
    for p in parts:
        rd = (rd + p['rd']) & ((1 << 64) - 1)
        exec_lines |= p['exec_lines']
        cnt.merge(p['cnt']); fnsw.merge(p['fnsw']); byg.merge(p['by_group']); byv.merge(p['by_variant'])
        sigs |= p['sigs']; sigs_nt |= p['sigs_nt']; viols += p['violations']; samples += p['samples']
        herr += p['harness_errors']
    corpus = run_corpus()
    viols += corpus['viols']
    det = determinism_selftest(master, cfg['det'])
    wall = time.time() - t0
    # one replay per distinct violation class
    viols.sort(key=lambda v: (v['scenario_index'], v['sched_seed']))
    seen = {}
    for v in viols:
        seen.setdefault(v['class'], v)
    digest = common.tree_digest()
    vlines = []
    klines = []
    for cls, v in sorted(seen.items()):
        k = common.match_known(PROP, cls, {'scenario': v['scenario'], 'trace': v['schedule'], 'detail': v['detail']})
        if k:
            klines.append('KNOWN-FINDING: property=%s sig=%s %s' % (PROP, k[0], k[1]))
            continue
        name = re.sub(r'[^A-Za-z0-9_.-]+', '_', cls)[:80] + '-s%d' % master
        path = common.write_replay(PROP, name, {
            'engine': 'thrsim', 'master_seed': master, 'scenario_index': v['scenario_index'],
            'sched_seed': v['sched_seed'], 'athlib_tree_digest': digest, 'scenario': v['scenario'],
            'trace': v['schedule'], 'violation': {'class': cls, 'detail': v['detail']},
            'event_digest': v['digest'], 'switches': v['switches'], 'minimised_from': v['minimised_from']})
        vlines.append('VIOLATION property=%s replay=%s' % (PROP, path))
    runs = cnt.get('runs', 0)
    top = sorted(fnsw.items(), key=lambda kv: -kv[1])[:25]
    coverage = {
        'evaluations': runs,
        'distinct_nontrivial': len(sigs_nt),
        'rule': 'one evaluation = one schedule (first thread, <=3 forced pre-emptions at athlib source lines - one schedule in nine: inside a line, '
                'before its n-th bytecode instruction -, exit order; seeded, plus every single pre-emption of every 60th/24th scenario) followed by 2-7 '
                'sequential epilogue calls, '
                'of one seeded scenario (variant first/warm/cachefull x 2-3 threads x 1-2 public calls each), run with real '
                'threads under the baton scheduler and compared call by call with the outcomes of all call-atomic sequential '
                'orders of the same tree; distinct = distinct (scenario, ordered switch list) signatures; non-trivial = at '
                'least one switch happened while another thread was inside an athlib call',
        'samples': samples[:4],
        'distinct_states': len(sigs),
        'scenarios': cnt.get('scenarios', 0),
        'scenarios_by_group': dict(byg), 'scenarios_by_variant': dict(byv),
        'change_aware_budget': dict(TREE_BIAS),
        'logical_steps': cnt.get('steps', 0),
        'simulated_time': 'not applicable - no clock in the subject; logical steps (athlib line events) reported instead',
        'runs_per_hour': int(runs / max(wall, 1e-9) * 3600),
        'seeds': {'master': master, 'first_scenario_index': 0, 'last_scenario_index': cfg['scenarios'] - 1,
                  'schedules_per_scenario': cfg['k']},
        'faults_fired': {'forced_preemption': cnt.get('preemptions_fired', 0),
                         'forced_preemption_while_other_thread_in_call': cnt.get('preemptions_fired_overlap', 0),
                         'forced_preemption_inside_a_source_line': cnt.get('preemptions_fired_inside_a_line', 0),
                         'preemptions_planned': cnt.get('preemptions_planned', 0),
                         'cooperative_lock_blocks': cnt.get('lock_blocks', 0)},
        'samplers': {s: cnt.get('sampler_' + s, 0) for s in SAMPLERS},
        'systematic_depth_one_sweeps': {'scenarios_swept (every single pre-emption at the first and last execution of every distinct line, each thread first, to every other thread)': cnt.get('scenarios_swept_at_depth_one', 0),
                                        'schedules': cnt.get('sampler_sweep', 0),
                                        'positions_beyond_the_per_scenario_cap': cnt.get('sweep_positions_beyond_cap', 0)},
        'probes_switch_sites_top': dict(top),
        'probes': {'distinct_switch_sites': len(fnsw),
                   'athlib_lines_executed_by_the_calls': len(exec_lines),
                   'athlib_lines_where_a_switch_landed': len([k for k in fnsw if k in exec_lines]),
                   'executed_lines_never_switched_at': sorted(exec_lines - set(fnsw))[:40]},
        'run_status': {k[7:]: v for k, v in cnt.items() if k.startswith('status_')},
        'skipped_unschedulable': cnt.get('skipped_unschedulable', 0),
        'oracle_sequential_runs': cnt.get('oracle_orders', 0),
        'violating_runs': cnt.get('violating_runs', 0),
        'violation_classes': sorted(seen),
        'regression_corpus': {'replayed': corpus['replayed'], 'reproduced': corpus['reproduced']},
        'determinism': det,
        'epilogue_calls_made_after_the_threads': cnt.get('epilogue_calls', 0),
        'all_runs_digest': '%016x' % rd,
        'lock_seam_objects_rebound': cnt.get('lock_seam_rebound', 0),
        'components': {'real': ['athlib (working tree)', 'jsonschema', 'json', 'decimal', 'CPython threads'],
                       'simulated': ['thread scheduling (baton, sys.settrace line events)', 'process freshness (fork)',
                                     'locks reachable from athlib (SimLock seam)'],
                       'stub': []},
        'workers': nw, 'athlib_tree_digest': digest,
    }
    coverage['known_findings_matched'] = len(klines)
    common.write_evidence(PROP, tier_, master, coverage, wall, len(vlines), [
        'pre-emption granularity is the athlib source line (sys.settrace) for K schedules per scenario, plus K/8 schedules that pre-empt inside a line before its n-th bytecode instruction (sys.monitoring)',
        'after the threads of a schedule have finished, 2-7 further calls are made sequentially and judged by the same oracle (corruption that outlives the race)',
        'only frames under athlib/ yield; jsonschema/stdlib code runs atomically between two athlib lines',
        'expected outcomes come from sequential runs of the same tree (refactor-proof, blind to sequential bugs)',
        'fork() of a pristine importer is taken as a fresh process'])
    for l in klines:
        print(l)
    for l in vlines:
        print(l)
    print('C16: runs=%d scenarios=%d distinct=%d nontrivial=%d violating_runs=%d classes=%d det=%s wall=%.1fs' %
          (runs, cnt.get('scenarios', 0), len(sigs), len(sigs_nt), cnt.get('violating_runs', 0), len(seen), det, wall))
    if herr:
        print('HARNESS-ERROR %d scenario(s) failed in the harness: %s' % (len(herr), herr[0][:600]))
        return 2
    if det['diverged']:
        print('HARNESS-ERROR determinism self-test diverged: %s' % det)
        return 2
    return 1 if vlines else 0


def run_corpus():
    """Directed regression: re-execute every recorded failing (scenario, schedule) of C16."""
    files = common.corpus_files(PROP)
    def w(wi, nw):
        athlib, _ = prepare_athlib()
        res = []
        for path in files[wi::nw]:
            rp = common.load_replay(path)
            scn = rp['scenario']
            def job():
                quiet_stdout()
                warm_up(athlib, scn)
                epi = scn.get('epilogue') or []
                accepted, traces, wlines, norders = oracle(athlib, scn['programs'], epilogue=epi)
                r = run_one(athlib, scn['programs'], rp['trace'], 300000, epilogue=epi)
                return violation_class(scn['programs'], accepted, r), r
            vc, r = common.fork_call(job, wall_cap=300.0, what='corpus replay')
            res.append((os.path.basename(path), rp, vc, r))
        return res
    out = {'replayed': 0, 'reproduced': 0, 'viols': []}
    if not files:
        return out
    for part in common.run_pool(w, min(common.ncpu(), len(files)), wall_cap=900):
        for name, rp, vc, r in part:
            out['replayed'] += 1
            if vc is not None:
                out['reproduced'] += 1
                out['viols'].append({'class': vc[0], 'detail': vc[1], 'scenario': rp['scenario'], 'schedule': rp['trace'],
                                     'digest': r['digest'], 'switches': r['switches'], 'sched_seed': 0, 'scenario_index': -1,
                                     'minimised_from': {'corpus_file': name}})
    return out


def replay(path):
    rp = common.load_replay(path)
    athlib, _ = prepare_athlib()
    scn = rp['scenario']
    def job():
        quiet_stdout()
        warm_up(athlib, scn)
        epi = scn.get('epilogue') or []
        accepted, traces, wlines, norders = oracle(athlib, scn['programs'], epilogue=epi)
        res = run_one(athlib, scn['programs'], rp['trace'], 300000, epilogue=epi)
        return violation_class(scn['programs'], accepted, res), res
    vc, res = common.fork_call(job, wall_cap=300.0, what='replay')
    print('replay: status=%s switches=%s' % (res['status'], res['switches']))
    print('replay: outcomes=%s epilogue=%s' % (res['out'], res.get('epi')))
    if vc is None:
        print('replay: no violation reproduced (recorded class %s)' % rp['violation']['class'])
        return 0
    same = (vc[0] == rp['violation']['class'])
    print('replay: violation class %s (%s recorded class); digest %s (recorded %s)' %
          (vc[0], 'same as' if same else 'DIFFERENT from', res['digest'], rp.get('event_digest')))
    print('VIOLATION property=%s replay=%s' % (PROP, path))
    if common.tree_digest() == rp.get('athlib_tree_digest') and (not same or res['digest'] != rp.get('event_digest')):
        print('HARNESS-ERROR replay diverged on an identical tree')
        return 2
    return 1

"""Baton scheduler: real threads, one running at a time, pre-emption at athlib source lines.

Exactly one simulated thread holds the baton; all others are parked on raw _thread locks, so
the interleaving is a pure function of the scheduler's decisions (the GIL's own switching is
irrelevant: parked threads execute nothing).  Yield points are sys.settrace 'line' events of
frames whose code lives under <repo>/athlib/.

A *plan* says where to pre-empt:  plan[tid] = {(file, line): {occurrence: switch_to}}.
Expressing positions as "k-th execution of source line L by thread t" (instead of a step index)
keeps a schedule meaningful when another thread's progress shortens this thread's path.

SimLock is the cooperative lock seam: code under test that blocks on a lock held by a parked
thread yields to the scheduler instead of hanging the OS thread.
"""
import sys, os, dis, time, threading, _thread
import queue as _queue_mod

_alloc = _thread.allocate_lock          # captured before any patching
_real_Lock = threading.Lock
_real_RLock = threading.RLock
_get_ident = _thread.get_ident

MASK = (1 << 61) - 1

NEW, RUNNABLE, RUNNING, BLOCKED, DONE = 'new', 'runnable', 'running', 'blocked', 'done'

_current = [None]        # the Sched of this process (one run per forked child)


class SimLock(object):
    """Cooperative replacement for threading.Lock / RLock (reentrant=True)."""
    def __init__(self, reentrant=False):
        self._reentrant = reentrant
        self._owner = None
        self._count = 0

    def _me(self):
        s = _current[0]
        if s is not None:
            t = s.ident2tid.get(_get_ident())
            if t is not None:
                return s, ('sim', t)
        return None, ('os', _get_ident())

    def acquire(self, blocking=True, timeout=-1):
        s, me = self._me()
        while True:
            if self._count == 0:
                self._owner = me; self._count = 1
                return True
            if self._reentrant and self._owner == me:
                self._count += 1
                return True
            if not blocking:
                return False
            if s is None:
                # contention outside a simulated thread cannot be scheduled cooperatively
                raise RuntimeError('SimLock contended outside the simulator')
            if timeout is not None and timeout >= 0:
                # a timed wait "expires" immediately in simulated time if nobody can release
                s.block_on(me[1], self, timed=True)
                if self._count != 0 and not (self._reentrant and self._owner == me):
                    return False
                continue
            s.block_on(me[1], self)

    def release(self):
        s, me = self._me()
        if self._count == 0:
            raise RuntimeError('release unlocked lock')
        self._count -= 1
        if self._count == 0:
            self._owner = None
            if s is not None:
                s.wake(self)

    def locked(self):
        return self._count != 0

    __enter__ = acquire

    def __exit__(self, *a):
        self.release()

    # RLock internals used by threading.Condition
    def _is_owned(self):
        return self._count != 0 and self._owner == self._me()[1]

    def _release_save(self):
        c, o = self._count, self._owner
        s, me = self._me()
        self._count = 0; self._owner = None
        if s is not None:
            s.wake(self)
        return (c, o)

    def _acquire_restore(self, st):
        self.acquire()
        self._count, self._owner = st


def sim_lock_factory():
    return SimLock(False)


def sim_rlock_factory():
    return SimLock(True)


class SimCondition(object):
    """Cooperative threading.Condition: wait() yields to the scheduler until notified."""
    def __init__(self, lock=None):
        self._lock = lock if lock is not None else SimLock(True)
        self._waiters = []
        self.acquire = self._lock.acquire
        self.release = self._lock.release

    def __enter__(self):
        return self._lock.acquire()

    def __exit__(self, *a):
        self._lock.release()

    def wait(self, timeout=None):
        s, me = self._lock._me()
        if not self._lock._is_owned():
            raise RuntimeError('cannot wait on un-acquired lock')
        if s is None:
            raise RuntimeError('Condition.wait() outside the simulator would never be notified')
        token = [False]
        self._waiters.append(token)
        saved = self._lock._release_save()
        try:
            s.block_on(me[1], token, timed=(timeout is not None))
        finally:
            if token in self._waiters:
                self._waiters.remove(token)
            self._lock._acquire_restore(saved)
        return token[0]

    def wait_for(self, predicate, timeout=None):
        r = predicate()
        while not r:
            got = self.wait(timeout)
            r = predicate()
            if timeout is not None and not got:
                break
        return r

    def notify(self, n=1):
        if not self._lock._is_owned():
            raise RuntimeError('cannot notify on un-acquired lock')
        s, me = self._lock._me()
        for token in self._waiters[:n]:
            token[0] = True
            self._waiters.remove(token)
            if s is not None:
                s.wake(token)

    def notify_all(self):
        self.notify(len(self._waiters))

    notifyAll = notify_all


class SimEvent(object):
    def __init__(self, flag=False):
        self._flag = flag

    def is_set(self):
        return self._flag

    isSet = is_set

    def set(self):
        self._flag = True
        s = _current[0]
        if s is not None:
            s.wake(self)

    def clear(self):
        self._flag = False

    def wait(self, timeout=None):
        while not self._flag:
            s = _current[0]
            t = s.ident2tid.get(_get_ident()) if s is not None else None
            if t is None:
                raise RuntimeError('Event.wait() outside the simulator would never return')
            s.block_on(t, self, timed=(timeout is not None))
            if timeout is not None:
                break
        return self._flag


class SimSemaphore(object):
    def __init__(self, value=1):
        self._value = value

    def acquire(self, blocking=True, timeout=None):
        while self._value <= 0:
            if not blocking:
                return False
            s = _current[0]
            t = s.ident2tid.get(_get_ident()) if s is not None else None
            if t is None:
                raise RuntimeError('Semaphore contended outside the simulator')
            s.block_on(t, self, timed=(timeout is not None and timeout >= 0))
            if timeout is not None and timeout >= 0 and self._value <= 0:
                return False
        self._value -= 1
        return True

    __enter__ = acquire

    def release(self, n=1):
        self._value += n
        s = _current[0]
        if s is not None:
            s.wake(self)

    def __exit__(self, *a):
        self.release()


class SimQueue(object):
    """Cooperative queue.Queue / SimpleQueue (FIFO only): blocking put/get yield to the scheduler."""
    def __init__(self, maxsize=0):
        import collections
        self.maxsize = maxsize
        self.queue = collections.deque()
        self._cv = SimCondition(SimLock(False))
        self._unfinished = 0

    def qsize(self):
        return len(self.queue)

    def empty(self):
        return not self.queue

    def full(self):
        return 0 < self.maxsize <= len(self.queue)

    def put(self, item, block=True, timeout=None):
        import queue as _q
        with self._cv:
            while self.full():
                if not block:
                    raise _q.Full
                got = self._cv.wait(timeout)
                if timeout is not None and not got and self.full():
                    raise _q.Full
            self.queue.append(item)
            self._unfinished += 1
            self._cv.notify_all()

    def get(self, block=True, timeout=None):
        import queue as _q
        with self._cv:
            while not self.queue:
                if not block:
                    raise _q.Empty
                got = self._cv.wait(timeout)
                if timeout is not None and not got and not self.queue:
                    raise _q.Empty
            item = self.queue.popleft()
            self._cv.notify_all()
            return item

    def put_nowait(self, item):
        return self.put(item, block=False)

    def get_nowait(self):
        return self.get(block=False)

    def task_done(self):
        with self._cv:
            self._unfinished -= 1
            self._cv.notify_all()

    def join(self):
        with self._cv:
            while self._unfinished > 0:
                self._cv.wait()


class _QueueProxy(object):
    """Stands in for the `queue` module inside athlib namespaces."""
    def __init__(self, real):
        self.__dict__['_real'] = real
    def __getattr__(self, name):
        if name in ('Queue', 'SimpleQueue'):
            return SimQueue
        return getattr(self._real, name)


def sim_sleep(secs=0):
    """Cooperative time.sleep for code under test: a polling loop (`while not ready: time.sleep(0.01)`) in
    the thread that holds the baton would otherwise sleep for real while everybody it waits for is parked.
    Sleeping yields to the runnable thread that has run least recently; no real time passes."""
    s = _current[0]
    t = s.ident2tid.get(_get_ident()) if s is not None else None
    if t is None:
        return _real_sleep(min(secs, 0.001))
    s.block_on(t, None, timed=True)


_real_sleep = time.sleep


class _TimeProxy(object):
    """Stands in for the `time` module inside athlib namespaces."""
    def __init__(self, real):
        self.__dict__['_real'] = real
    def __getattr__(self, name):
        if name == 'sleep':
            return sim_sleep
        return getattr(self._real, name)


_FACTORIES = {'Lock': sim_lock_factory, 'RLock': sim_rlock_factory, 'Condition': SimCondition, 'Event': SimEvent,
              'Semaphore': SimSemaphore, 'BoundedSemaphore': SimSemaphore}


class _ThreadingProxy(object):
    """Stands in for the `threading` module inside athlib namespaces."""
    def __init__(self, real):
        self.__dict__['_real'] = real
    def __getattr__(self, name):
        f = _FACTORIES.get(name)
        if f is not None:
            return f
        return getattr(self._real, name)


def install_lock_seam(modules):
    """Replace synchronisation objects and their factories reachable from the given (athlib) modules
    by cooperative Sim* objects: module globals, class attributes, and attributes of instances of
    athlib classes, to depth 3.  Identity is preserved (one real lock -> one SimLock).

    Returns the number of objects rebound (reported in the evidence).
    """
    lock_t, rlock_t = type(_alloc()), type(_real_RLock())
    real_factories = {id(getattr(threading, k)): v for k, v in _FACTORIES.items()}
    real_factories[id(_alloc)] = sim_lock_factory
    memo = {}
    count = [0]

    def conv(v):
        if id(v) in memo:
            return memo[id(v)][1]
        r = None
        if isinstance(v, lock_t):
            r = SimLock(False)
        elif isinstance(v, rlock_t):
            r = SimLock(True)
        elif isinstance(v, threading.Condition):
            r = SimCondition(conv(v._lock) or SimLock(True))
        elif isinstance(v, threading.Event):
            r = SimEvent(v.is_set())
        elif isinstance(v, threading.Semaphore):
            r = SimSemaphore(v._value)
        elif v is threading:
            r = _ThreadingProxy(threading)
        elif v is time:
            r = _TimeProxy(time)
        elif v is _real_sleep:
            r = sim_sleep
        elif v is _queue_mod:
            r = _QueueProxy(_queue_mod)
        elif v is _queue_mod.Queue or v is _queue_mod.SimpleQueue:
            r = SimQueue
        elif isinstance(v, (_queue_mod.Queue, _queue_mod.SimpleQueue)) and type(v) in (_queue_mod.Queue, _queue_mod.SimpleQueue):
            r = SimQueue(getattr(v, 'maxsize', 0))
            try:
                while True:
                    r.queue.append(v.get_nowait())
            except Exception:
                pass
        elif id(v) in real_factories and callable(v):
            r = real_factories[id(v)]
        if r is not None:
            memo[id(v)] = (v, r)        # keeps v alive so that its id stays unique
        return r

    def is_ours(v):
        mod = getattr(v, '__module__', None)
        if not isinstance(mod, str):
            mod = getattr(type(v), '__module__', '')
        return isinstance(mod, str) and (mod == 'athlib' or mod.startswith('athlib.'))

    def rebind(items, setter):
        for k, v in items:
            c = conv(v)
            if c is not None:
                try:
                    setter(k, c); count[0] += 1
                except Exception:
                    pass
            elif type(v) in (dict, list) and 0 < len(v) <= 64:
                # small plain containers one level down (a dict of locks, a list of conditions)
                sub = list(v.items()) if type(v) is dict else list(enumerate(v))
                for k2, v2 in sub:
                    c2 = conv(v2)
                    if c2 is not None:
                        v[k2] = c2; count[0] += 1

    # 1. the athlib modules' globals
    for m in modules:
        d = getattr(m, '__dict__', None)
        if d is not None:
            rebind([(k, v) for k, v in list(d.items()) if not k.startswith('__')], d.__setitem__)
    # 2. every live object whose class (or which, being a class) is defined in athlib - whatever it is
    #    reachable from: instances kept in module globals, in containers, in closures, dict subclasses ...
    import gc
    def slot_items(obj):
        """(name, value) of the attributes a __slots__ class keeps outside any __dict__"""
        out = []
        for klass in type(obj).__mro__:
            sl = klass.__dict__.get('__slots__', ())
            if isinstance(sl, str):
                sl = (sl,)
            for name in sl:
                if name in ('__dict__', '__weakref__'):
                    continue
                if name.startswith('__') and not name.endswith('__'):
                    name = '_%s%s' % (klass.__name__.lstrip('_'), name)
                try:
                    out.append((name, getattr(obj, name)))
                except Exception:
                    pass
        return out

    for obj in gc.get_objects():
        try:
            if not is_ours(obj) or isinstance(obj, type(sys)):
                continue
        except Exception:
            continue
        items = []
        try:
            items += list(vars(obj).items())
        except Exception:
            pass
        if not isinstance(obj, type):
            try:
                items += slot_items(obj)
            except Exception:
                pass
        if items:
            rebind(items, (lambda kk, cc, o=obj: setattr(o, kk, cc)))
        # a lock captured by a closure, or kept as a default argument, of a function defined in athlib
        if isinstance(obj, type(install_lock_seam)):
            try:
                for cell in (obj.__closure__ or ()):
                    try:
                        c = conv(cell.cell_contents)
                    except ValueError:
                        continue
                    if c is not None:
                        cell.cell_contents = c; count[0] += 1
                if obj.__defaults__ and any(conv(d) is not None for d in obj.__defaults__):
                    obj.__defaults__ = tuple((conv(d) or d) if conv(d) is not None else d for d in obj.__defaults__)
                    count[0] += 1
                if obj.__kwdefaults__:
                    for kk, d in list(obj.__kwdefaults__.items()):
                        if conv(d) is not None:
                            obj.__kwdefaults__[kk] = conv(d); count[0] += 1
            except Exception:
                pass
    return count[0]


# ---------------------------------------------------------------------------------------------

_write_ops = ('STORE_GLOBAL', 'STORE_ATTR', 'STORE_SUBSCR', 'DELETE_GLOBAL', 'DELETE_ATTR',
              'DELETE_SUBSCR', 'STORE_DEREF')
_mut_names = frozenset(('pop', 'append', 'update', 'insert', 'clear', 'setdefault', 'popitem',
                        'sort', 'remove', 'extend', 'add', 'discard', 'reverse', '__setitem__'))
_code_writes = {}


def write_lines(code):
    """Source lines of a code object that (may) write shared state; cached per code object."""
    r = _code_writes.get(code)
    if r is None:
        r = set()
        try:
            cur = None
            for ins in dis.get_instructions(code):
                if ins.starts_line is not None:
                    cur = ins.starts_line
                if cur is None:
                    continue
                if ins.opname in _write_ops:
                    r.add(cur)
                elif ins.opname in ('LOAD_ATTR', 'LOAD_METHOD') and ins.argval in _mut_names:
                    r.add(cur)
        except Exception:
            pass
        _code_writes[code] = r
    return r


_code_branches = {}


def branch_lines(code):
    """Source lines of a code object that contain a conditional jump (an `if`, `while`, `and`/`or`,
    conditional expression): the line executed right after one is where a check-then-act window opens."""
    r = _code_branches.get(code)
    if r is None:
        r = set()
        try:
            cur = None
            for ins in dis.get_instructions(code):
                if ins.starts_line is not None:
                    cur = ins.starts_line
                if cur is not None and ('JUMP_IF' in ins.opname):
                    r.add(cur)
        except Exception:
            pass
        _code_branches[code] = r
    return r


_code_opcounts = {}


def op_counts(code):
    """{line: number of bytecode instructions of that source line} for a code object (cached)."""
    r = _code_opcounts.get(code)
    if r is None:
        r = {}
        try:
            cur = None
            for ins in dis.get_instructions(code):
                if ins.starts_line is not None:
                    cur = ins.starts_line
                if cur is not None and ins.opname not in ('RESUME', 'CACHE', 'NOP'):
                    r[cur] = r.get(cur, 0) + 1
        except Exception:
            pass
        _code_opcounts[code] = r
    return r


_code_opwrites = {}


def op_after_writes(code):
    """{line: [n, ...]}: the instruction positions (1-based, in static order) that FOLLOW a store to an
    attribute / item / global or a call within that line - i.e. 'pre-empt before instruction n' lands right
    after shared state was (or may have been) changed, in the middle of the line."""
    r = _code_opwrites.get(code)
    if r is None:
        r = {}
        try:
            cur = None; idx = 0; prev_w = False
            for ins in dis.get_instructions(code):
                if ins.starts_line is not None:
                    if ins.starts_line != cur:
                        idx = 0; prev_w = False
                    cur = ins.starts_line
                if cur is None or ins.opname in ('RESUME', 'CACHE', 'NOP'):
                    continue
                idx += 1
                if prev_w and idx >= 2:
                    r.setdefault(cur, []).append(idx)
                prev_w = ins.opname in _write_ops or ins.opname.startswith('CALL')
        except Exception:
            pass
        _code_opwrites[code] = r
    return r


MON_TOOL = 3            # a free sys.monitoring tool id (PEP 669); settrace keeps its own


def _monitoring():
    mon = getattr(sys, 'monitoring', None)
    if mon is None:
        return None
    try:
        if mon.get_tool(MON_TOOL) is None:
            mon.use_tool_id(MON_TOOL, 'thrsim')
    except Exception:
        return None
    return mon


class Sched(object):
    """plan[tid][(file, line)][occurrence] = switch_to            pre-empt before that line runs, or
                                            = (switch_to, n)      pre-empt *inside* the line, before its
                                                                  n-th bytecode instruction (n >= 2)."""
    def __init__(self, programs, plan=None, first=0, pref=None, step_cap=300000,
                 athlib_dir=None, record=False, stall_s=2.5):
        self.n = len(programs)
        self.programs = programs
        self.plan = plan or {}
        self.first = first
        self.pref = list(pref) if pref is not None else list(range(self.n))
        self.step_cap = step_cap
        self.adir = athlib_dir
        self.record = record
        self.stall_s = stall_s
        self.park = [_alloc() for _ in range(self.n)]
        for l in self.park:
            l.acquire()
        self.finished = _alloc(); self.finished.acquire()
        self.state = [NEW] * self.n
        self.blocked_on = [None] * self.n
        self.out = [None] * self.n
        self.occ = [dict() for _ in range(self.n)]
        self.nsteps = 0
        self.tsteps = [0] * self.n
        self.digest = 0
        self.switches = []          # (from, file, line, occ, to)
        self.trace = [[] for _ in range(self.n)] if record else None
        self.wlines = set() if record else None
        self.incall = [False] * self.n
        self.overlap_switches = 0
        self.status = None          # 'ok' | 'deadlock' | 'stepcap' | 'stalled'
        self.ident2tid = {}
        self.lock_blocks = 0
        self.op_switches = 0
        self.tick = 0
        self.last_run = [0] * self.n
        self.armed = [None] * self.n      # per thread: [frame, instructions left, switch_to, key, occ, n]
        self.mon = None

    # ---- pre-emption inside a line (sys.monitoring INSTRUCTION events, armed for one line execution) ----
    def _arm(self, tid, frame, to, n, key, k):
        if self.mon is None:
            self.mon = _monitoring()
            if self.mon is None:
                return self.preempt(tid, to, key, k)        # no PEP 669: fall back to the line boundary
            self.mon.register_callback(MON_TOOL, self.mon.events.INSTRUCTION, self._on_instr)
        self.armed[tid] = [frame, n, to, key, k, n]
        self.mon.set_local_events(MON_TOOL, frame.f_code, self.mon.events.INSTRUCTION)

    def _disarm(self, tid):
        a = self.armed[tid]
        self.armed[tid] = None
        if a is not None and not any(b is not None and b[0].f_code is a[0].f_code for b in self.armed):
            try:
                self.mon.set_local_events(MON_TOOL, a[0].f_code, 0)
            except Exception:
                pass

    def _on_instr(self, code, offset):
        tid = self.ident2tid.get(_get_ident())
        if tid is None:
            return
        a = self.armed[tid]
        if a is None or sys._getframe(1) is not a[0]:
            return
        a[1] -= 1
        if a[1] <= 0:
            self._disarm(tid)
            self.digest = ((self.digest * 1000003) ^ (tid << 24) ^ (a[5] << 12) ^ a[3][1]) & MASK
            self.preempt(tid, a[2], a[3], a[4], op=a[5])

    # ---- tracing -------------------------------------------------------------------------
    def _make_tracers(self, tid):
        adir = self.adir
        step = self.step
        def local(frame, event, arg):
            if event == 'line':
                step(tid, frame)
            return local
        def glob(frame, event, arg):
            if frame.f_code.co_filename.startswith(adir):
                return local
            return None
        return glob

    def step(self, tid, frame):
        self.nsteps += 1
        self.tsteps[tid] += 1
        code = frame.f_code
        ln = frame.f_lineno
        key = (code.co_filename, ln)
        self.digest = ((self.digest * 1000003) ^ (tid << 24) ^ ln) & MASK
        if self.record:
            self.trace[tid].append(key)
            if ln in write_lines(code):
                self.wlines.add(key)
        if self.nsteps > self.step_cap:
            self._abort('stepcap')
        a = self.armed[tid]
        if a is not None and a[0] is frame:
            self._disarm(tid)           # the armed line ended before its n-th instruction was reached
        tp = self.plan.get(tid)
        if tp:
            lp = tp.get(key)
            if lp is not None:
                o = self.occ[tid]
                k = o[key] = o.get(key, 0) + 1
                to = lp.get(k)
                if to is not None:
                    if type(to) is tuple:
                        self._arm(tid, frame, to[0], to[1], key, k)
                    else:
                        self.preempt(tid, to, key, k)

    # ---- baton -----------------------------------------------------------------------------
    def _runnable(self, exclude=None):
        for t in self.pref:
            if t != exclude and self.state[t] in (NEW, RUNNABLE):
                return t
        return None

    def preempt(self, tid, to, key, k, op=None):
        if to == tid or self.state[to] not in (NEW, RUNNABLE):
            to = self._runnable(exclude=tid)
            if to is None:
                return
        self.switches.append((tid, os.path.relpath(key[0], self.adir), key[1], k, to) + ((op,) if op else ()))
        if op:
            self.op_switches += 1
        if any(self.incall[t] for t in range(self.n) if t != tid):
            self.overlap_switches += 1
        self.state[tid] = RUNNABLE
        self._handover(tid, to)

    def _runnable_fair(self, exclude=None):
        """For a thread that yields because it has to WAIT (lock, condition, event, timed wait): the runnable
        thread that has run least recently.  Two waiters polling with timed waits must not hand the baton to
        each other for ever while the thread they wait for never runs (control nc9b-r3: a builder holding a
        claim lock, two waiters looping on Event.wait(0.5))."""
        best = None
        for t in self.pref:
            if t != exclude and self.state[t] in (NEW, RUNNABLE):
                if best is None or self.last_run[t] < self.last_run[best]:
                    best = t
        return best

    def _handover(self, frm, to):
        self.tick += 1
        self.last_run[to] = self.tick
        self.state[to] = RUNNING
        self.park[to].release()
        self.park[frm].acquire()        # parked until somebody hands the baton back
        self.state[frm] = RUNNING

    def block_on(self, tid, lock, timed=False):
        self.lock_blocks += 1
        to = self._runnable_fair(exclude=tid)
        if to is None:
            if timed:
                return                  # nobody can release it: the timed wait expires
            self.state[tid] = BLOCKED
            self._abort('deadlock')
        self.state[tid] = BLOCKED if not timed else RUNNABLE
        self.blocked_on[tid] = lock if not timed else None
        self.switches.append((tid, '<lock>', 0, self.lock_blocks, to))
        self._handover(tid, to)

    def wake(self, lock):
        for t in range(self.n):
            if self.state[t] == BLOCKED and self.blocked_on[t] is lock:
                self.state[t] = RUNNABLE
                self.blocked_on[t] = None

    def _abort(self, status):
        """Called in a simulated thread: end the run, never return."""
        self.status = status
        self.finished.release()
        _alloc_forever = _alloc(); _alloc_forever.acquire()
        sys.settrace(None)
        _alloc_forever.acquire()        # parks this thread for good; the child process _exit()s

    def _body(self, tid):
        self.park[tid].acquire()
        self.ident2tid[_get_ident()] = tid
        self.state[tid] = RUNNING
        res = []
        sys.settrace(self._make_tracers(tid))
        try:
            for call in self.programs[tid]:
                self.incall[tid] = True
                res.append(call())
                self.incall[tid] = False
        finally:
            sys.settrace(None)
            self.out[tid] = res
            self.state[tid] = DONE
            nxt = self._runnable()
            if nxt is not None:
                self.state[nxt] = RUNNING
                self.park[nxt].release()
            elif all(s == DONE for s in self.state):
                self.status = 'ok'
                self.finished.release()
            else:
                self.status = 'deadlock'     # the rest is blocked on locks nobody will release
                self.finished.release()

    def run(self):
        _current[0] = self
        ths = []
        for t in range(self.n):
            th = threading.Thread(target=self._body, args=(t,), name='sim-%d' % t, daemon=True)
            th.start()
            ths.append(th)
        self.state[self.first] = RUNNING
        self.park[self.first].release()
        last = -1
        last_t = time.monotonic()
        while not self.finished.acquire(timeout=0.25):
            if self.nsteps != last:
                last = self.nsteps; last_t = time.monotonic()
            elif time.monotonic() - last_t > self.stall_s:
                self.status = 'stalled'
                break
        if self.status == 'ok':
            for th in ths:
                th.join(2.0)
        return self.status

"""Engine schemasim (C19): seeded call histories over athlib.utils.schema_valid /
valid_against_schema inside children forked from a pristine importer; the oracle for every call
is the outcome of the same call made first in such a fresh process.  File and network access sit
behind harness-side seams.  See DESIGN.md section 5.
"""
import os, sys, re, time, json, random, hashlib, builtins, socket, tempfile, shutil

from . import common
from .common import Counter, HarnessError

PROP = 'C19'

SCHEMAS = ['json/athlete.json', 'json/combined_performance.json', 'json/competition.json',
           'json/event.json', 'json/metaschema.json', 'json/performance.json', 'json/race.json',
           'json/definitions/field_performance.json', 'json/definitions/horizontal_jump_performance.json',
           'json/definitions/jump_performance.json', 'json/definitions/throw_performance.json',
           'json/definitions/track_performance.json', 'json/definitions/vertical_jump_performance.json']
VALIDATORS = [None, 'Draft3Validator', 'Draft4Validator', 'Draft6Validator', 'Draft7Validator',
              'Ext3', 'Ext4', 'Ext7']
# Ext*: user-defined validator classes made with jsonschema.validators.extend() from the stock drafts
# (they all carry the class name "Validator"); created once per process in prepare()
EXT = {}


def validator_class(jsonschema, name):
    if name in EXT:
        return EXT[name]
    return getattr(jsonschema, name)

MAIN = ['athlete', 'combined_performance', 'competition', 'event', 'performance']


def list_docs():
    d = os.path.join(common.REPO, 'sample-jsons')
    return sorted('sample-jsons/' + f for f in os.listdir(d) if f.endswith('.json'))


def own_schema(doc):
    base = os.path.basename(doc)
    if base.startswith('race_'):
        return 'json/race.json'
    for m in sorted(MAIN, key=len, reverse=True):
        if base.startswith(m):
            return 'json/%s.json' % m
    return None


def spell(path, how):
    """The spellings localpath() is written to understand: repo-relative (as the tests use),
    absolute, bare (without the leading json/ - found by the directory search) and back-slashed."""
    if how == 'rel':
        return path
    if how == 'abs':
        return os.path.join(common.REPO, path)
    if how == 'bare':
        return path[len('json/'):] if path.startswith('json/') else path
    return path.replace('/', '\\')        # 'bs'


# a call: ('sv', schema, spelling, validator-name-or-None, expect_failure)
#         ('va', doc, doc-spelling, schema, schema-spelling, expect_failure)

def cache_key(call):
    if call[0] == 'sv':
        return ('sv', call[1], call[2], call[3] or 'Draft3Validator')
    return ('va', call[1], call[2], call[3], call[4])


_HEX = re.compile(r'0x[0-9a-fA-F]+')


def execute(athlib_utils, jsonschema, call):
    try:
        if call[0] == 'sv':
            kw = {}
            if call[3] is not None:
                kw['validator'] = validator_class(jsonschema, call[3])
            if call[4]:
                kw['expect_failure'] = True
            v = athlib_utils.schema_valid(spell(call[1], call[2]), **kw)
        else:
            kw = {'expect_failure': True} if call[5] else {}
            v = athlib_utils.valid_against_schema(spell(call[1], call[2]), spell(call[3], call[4]), **kw)
        return ('ok', repr(v))
    except Exception as e:
        # the neutral working directory has a random name and object addresses differ between interpreters:
        # neither may leak into an outcome (a tree whose error texts quote the path it tried made the
        # determinism self-test diverge, control nc7b-r3)
        msg = str(e)
        try:
            cwd = os.getcwd()
            msg = msg.replace(os.path.realpath(cwd), '<cwd>').replace(cwd, '<cwd>')
        except Exception:
            pass
        msg = _HEX.sub('0x?', msg)
        return ('exc', type(e).__name__, hashlib.sha1(msg.encode('utf8', 'replace')).hexdigest()[:12])


# ---------------------------------------------------------------------------------------------
# seams (installed once in the pristine worker, inherited by every forked child)

class Seams(object):
    def __init__(self):
        self.opened = []
        self.sockets = []
        self.fault = None           # (nth open of a .json file, kind) for the diagnostic fault runs
        self.json_opens = 0
        self.faults_fired = 0

    def install(self):
        real_open = builtins.open
        seams = self
        def sim_open(file, *a, **k):
            if isinstance(file, (str, bytes, os.PathLike)):
                p = os.fspath(file)
                if isinstance(p, bytes):
                    p = p.decode('utf8', 'replace')
                if p.endswith('.json'):
                    seams.json_opens += 1
                    if seams.fault is not None and seams.fault[0] == seams.json_opens:
                        seams.faults_fired += 1
                        if seams.fault[1] == 'oserror':
                            raise OSError(5, 'simulated I/O error', p)
                        import io
                        data = real_open(file, *a, **k).read()
                        return io.StringIO(data[:max(1, len(data) // 3)])
            f = real_open(file, *a, **k)
            # (recorded only once it *has* been opened: a spelling that resolves to nothing is tried
            #  relative to the neutral cwd and fails with FileNotFoundError - no file outside the repository
            #  was read by that)
            if isinstance(file, (str, bytes, os.PathLike)):
                seams.opened.append(p)
            return f
        builtins.open = sim_open
        import io
        io.open = sim_open
        class NoNet(socket.socket):
            def __init__(self2, *a, **k):
                seams.sockets.append(('socket', repr(a)[:80]))
                raise OSError(101, 'simulated: network unreachable (the simulator keeps the network partitioned)')
        def no_conn(*a, **k):
            seams.sockets.append(('create_connection', repr(a)[:80]))
            raise OSError(101, 'simulated: network unreachable')
        def no_gai(*a, **k):
            seams.sockets.append(('getaddrinfo', repr(a)[:80]))
            raise socket.gaierror(-3, 'simulated: no name resolution')
        socket.socket = NoNet
        socket.create_connection = no_conn
        socket.getaddrinfo = no_gai


SEAMS = Seams()


def quiet():
    try: sys.stdout.flush()
    except Exception: pass
    dn = os.open(os.devnull, os.O_WRONLY)
    os.dup2(dn, 1)
    os.close(dn)


def run_history(mods, calls, neutral_cwd, fault=None, cap=None):
    """Forked child: execute the calls in order. Returns outcomes, opened files, socket attempts."""
    utils, jsonschema = mods
    def job():
        quiet()
        os.chdir(neutral_cwd)
        SEAMS.opened = []; SEAMS.sockets = []; SEAMS.json_opens = 0; SEAMS.fault = fault; SEAMS.faults_fired = 0
        common.cap_size_knobs(cap)
        outs = [execute(utils, jsonschema, c) for c in calls]
        return outs, sorted(set(SEAMS.opened)), list(SEAMS.sockets), SEAMS.faults_fired
    return common.fork_call(job, wall_cap=120.0, what='history')


# ---------------------------------------------------------------------------------------------
# alphabet and history generation

def alphabet(docs):
    A = []
    for s in SCHEMAS:
        for sp in ('rel', 'abs', 'bare', 'bs'):
            for v in VALIDATORS:
                for ef in (False, True):
                    A.append(('sv', s, sp, v, ef))
    for d in docs:
        for s in SCHEMAS:
            for ef in (False, True):
                A.append(('va', d, 'rel', s, 'rel', ef))
        for ef in (False, True):
            o = own_schema(d)
            A.append(('va', d, 'abs', o, 'abs', ef))
            A.append(('va', d, 'abs', o, 'rel', ef))
            A.append(('va', d, 'rel', o, 'bare', ef))
            A.append(('va', d, 'rel', o, 'bs', ef))
            A.append(('va', d, 'rel', 'json/metaschema.json', 'abs', ef))
            A.append(('va', d, 'rel', 'json/metaschema.json', 'bare', ef))
    return A


def twin(path, docs):
    """The file of the same base name in the other directory (json/X.json <-> sample-jsons/X.json), or None."""
    base = os.path.basename(path)
    cands = ['sample-jsons/' + base] if path.startswith('json/') else ['json/' + base]
    for c_ in cands:
        if c_ in docs or c_ in SCHEMAS:
            return c_
    return None


def rand_call(rng, docs):
    c_ = _rand_call(rng, docs)
    # cross use, 12 %: a schema file is a JSON document too, and a sample document can be (mis)used as a
    # schema - the helpers accept any file in either role, so the histories do as well
    if rng.random() < 0.12:
        if c_[0] == 'sv':
            d = rng.choice(docs)
            return ('sv', d, rng.choice(['rel', 'rel', 'abs']), c_[3], c_[4])
        x = rng.random()
        if x < 0.5:
            s_ = rng.choice(SCHEMAS[:7])
            return ('va', s_, 'rel', rng.choice([s_, c_[3], 'json/metaschema.json']), 'rel', c_[5])
        d = rng.choice(docs)
        return ('va', rng.choice([c_[1], d, twin(d, docs) or d]), 'rel', d, 'rel', c_[5])
    return c_


def _rand_call(rng, docs):
    if rng.random() < 0.45:
        s = rng.choice(SCHEMAS[:7] if rng.random() < 0.7 else SCHEMAS)
        x = rng.random()
        sp = 'rel' if x < 0.7 else 'abs' if x < 0.8 else 'bare' if x < 0.92 else 'bs'
        return ('sv', s, sp, rng.choice(VALIDATORS), rng.random() < 0.35)
    d = rng.choice(docs)
    x = rng.random()
    if x < 0.55:
        s = own_schema(d) or rng.choice(SCHEMAS[:7])
    elif x < 0.75:
        s = 'json/metaschema.json'
    else:
        s = rng.choice(SCHEMAS)
    y = rng.random()
    if y < 0.75 or s not in (own_schema(d), 'json/metaschema.json'):
        sp = ('rel', 'rel')
    elif s == 'json/metaschema.json':
        sp = rng.choice([('rel', 'abs'), ('rel', 'bare')])
    else:
        sp = rng.choice([('abs', 'abs'), ('abs', 'rel'), ('rel', 'bare'), ('rel', 'bs')])
    return ('va', d, sp[0], s, sp[1], rng.random() < 0.35)


def flip(rng, call, docs=None):
    """A call colliding with `call` on the cache key (or nearly): other expectation / validator / spelling /
    the file of the same name in the other directory."""
    if docs is not None and rng.random() < 0.1:
        if call[0] == 'sv':
            t = twin(call[1], docs)
            if t:
                return ('sv', t, 'rel', call[3], call[4])
        else:
            which = rng.choice([1, 3])
            t = twin(call[which], docs)
            if t:
                c2 = list(call); c2[which] = t; c2[which + 1] = 'rel'
                return tuple(c2)
    x = rng.random()
    if call[0] == 'sv':
        if x < 0.6:
            return call[:4] + (not call[4],)
        if x < 0.85:
            return call[:3] + (rng.choice(VALIDATORS), rng.random() < 0.5)
        return ('sv', call[1], rng.choice([x for x in ('rel', 'abs', 'bare', 'bs') if x != call[2]]), call[3], rng.random() < 0.5)
    if x < 0.7:
        return call[:5] + (not call[5],)
    if x < 0.85 and call[3] in (own_schema(call[1]),):
        sp = rng.choice([('abs', 'abs'), ('abs', 'rel'), ('rel', 'bare'), ('rel', 'bs')])
        return ('va', call[1], sp[0], call[3], sp[1], rng.random() < 0.5)
    return call[:5] + (rng.random() < 0.5,)


def likely_negative(call):
    """Static guess (no table needed, so generation is a pure function of the seed)."""
    if call[0] == 'sv':
        return call[3] in (None, 'Draft3Validator') and call[1] in ('json/athlete.json', 'json/combined_performance.json',
                                                                     'json/competition.json', 'json/event.json')
    return 'invalid' in call[1] or call[3] not in (own_schema(call[1]), 'json/metaschema.json')


def gen_history(rng, docs, table=None):
    """-> (kind, calls); kind may carry a knob: 'long-random|cap=3' caps every bounded cache at 3 entries"""
    kind, calls = _gen_history(rng, docs)
    if rng.random() < 0.35:
        kind += '|cap=%d' % rng.choice([2, 3, 5])
    return kind, calls


def cap_of(kind):
    return int(kind.split('|cap=')[1]) if '|cap=' in kind else None


def sweep(rng, docs):
    """One document against (nearly) every schema, or one schema under every validator and spelling -
    the way a user checks a new file - with a few unrelated calls in between."""
    calls = []
    if rng.random() < 0.6:
        for d in rng.sample(docs, rng.choice([1, 1, 2])):
            ss = list(SCHEMAS[:7]) + rng.sample(SCHEMAS[7:], rng.randint(0, 3))
            rng.shuffle(ss)
            meta = ('va', d, 'rel', 'json/metaschema.json', 'rel', rng.random() < 0.15)
            for s_ in ss:
                if s_ == 'json/metaschema.json' and rng.random() < 0.7:
                    continue
                calls.append(('va', d, 'rel', s_, 'rel', rng.random() < 0.15))
                if rng.random() < 0.15:
                    calls.append(rand_call(rng, docs))
            calls.append(meta)
    else:
        s_ = rng.choice(SCHEMAS)
        combos = [(sp, v) for sp in ('rel', 'abs', 'bare', 'bs') for v in VALIDATORS]
        rng.shuffle(combos)
        for sp, v in combos[:rng.randint(6, 20)]:
            calls.append(('sv', s_, sp, v, rng.random() < 0.3))
            if rng.random() < 0.15:
                calls.append(rand_call(rng, docs))
    return calls


def _gen_history(rng, docs):
    x = rng.random()
    if x >= 0.6 and x < 0.72:
        return 'sweep', sweep(rng, docs)
    if x >= 0.72 and x < 0.77:
        # the two helpers on the SAME schema file (any of the 13, any validator, any spelling): whatever one
        # of them remembers about the file must not leak into the other's answer
        s_ = rng.choice(SCHEMAS[7:] if rng.random() < 0.5 else SCHEMAS)
        own = [d for d in docs if own_schema(d) == s_]
        calls = []
        for _ in range(rng.choice([2, 2, 3, 4])):
            sp = rng.choice(['rel', 'rel', 'rel', 'abs', 'bare'])
            if rng.random() < 0.5:
                calls.append(('sv', s_, sp, rng.choice(VALIDATORS), rng.random() < 0.3))
            else:
                d = rng.choice(own) if own and rng.random() < 0.5 else rng.choice(docs)
                calls.append(('va', d, 'rel', s_, sp if sp != 'abs' else 'rel', rng.random() < 0.3))
        if not any(c[0] == 'sv' for c in calls):
            calls.insert(0, ('sv', s_, 'rel', rng.choice(VALIDATORS), False))
        if not any(c[0] == 'va' for c in calls):
            calls.append(('va', rng.choice(own or docs), 'rel', s_, 'rel', False))
        return 'short-both-helpers-one-schema', calls
    if x < 0.6:
        n = rng.choice([1, 2, 2, 3, 3, 3])
        calls = [rand_call(rng, docs)]
        # prefer a first call whose fresh answer is negative: that is where a memo can go wrong
        if rng.random() < 0.5:
            for _ in range(8):
                if likely_negative(calls[0]):
                    break
                calls[0] = rand_call(rng, docs)
        while len(calls) < n:
            calls.append(flip(rng, rng.choice(calls), docs) if rng.random() < 0.75 else rand_call(rng, docs))
        return 'short', calls
    pat = rng.choice(['random', 'fill-then-probe', 'thrash'])
    n = rng.randint(21, 80)
    if pat == 'random':
        calls = [rand_call(rng, docs) for _ in range(n)]
        for i in range(3, n):
            if rng.random() < 0.25:
                calls[i] = flip(rng, rng.choice(calls[:i]), docs)
        return 'long-random', calls
    if pat == 'fill-then-probe':
        which = rng.choice(['sv', 'va'])
        fill = []
        seen = set()
        target = rng.choice([rng.randint(20, 26), rng.randint(20, 26), rng.randint(40, 46)])
        while len(fill) < target:
            c = rand_call(rng, docs)
            if c[0] != which or cache_key(c) in seen:
                continue
            c = c[:-1] + (False,)
            seen.add(cache_key(c)); fill.append(c)
        probes = [flip(rng, rng.choice(fill), docs) if rng.random() < 0.8 else rand_call(rng, docs)
                  for _ in range(max(4, n - len(fill)))]
        return 'long-fill-then-probe', fill + probes
    # thrash: alternate a few keys around the limit
    which = rng.choice(['sv', 'va'])
    fill = []
    seen = set()
    while len(fill) < 19:
        c = rand_call(rng, docs)
        if c[0] != which or cache_key(c) in seen:
            continue
        seen.add(cache_key(c)); fill.append(c[:-1] + (False,))
    extra = []
    while len(extra) < 3:
        c = rand_call(rng, docs)
        if c[0] == which and cache_key(c) not in seen:
            seen.add(cache_key(c)); extra.append(c)
    calls = list(fill)
    while len(calls) < n:
        c = rng.choice(extra)
        calls.append(c[:-1] + (rng.random() < 0.5,))
    return 'long-thrash', calls


# ---------------------------------------------------------------------------------------------

def prepare():
    athlib = common.import_athlib()
    import athlib.utils as utils
    import jsonschema
    if not EXT:
        for n, base in (('Ext3', 'Draft3Validator'), ('Ext4', 'Draft4Validator'), ('Ext7', 'Draft7Validator')):
            EXT[n] = jsonschema.validators.extend(getattr(jsonschema, base), {})
    SEAMS.install()
    import gc
    gc.collect(); gc.freeze()
    return utils, jsonschema


def fresh_table(calls, neutral_cwd):
    """call -> fresh outcome, each made first in a child forked from the pristine importer (parallel)."""
    calls = sorted(set(calls), key=repr)
    def w(wi, nw):
        mods = prepare()
        out = {}
        files = set(); socks = []
        for c in calls[wi::nw]:
            o, opened, s, _ = run_history(mods, [c], neutral_cwd)
            out[c] = o[0]; files |= set(opened); socks += s
        return out, files, socks
    table = {}; files = set(); socks = []
    for t, f, s in common.run_pool(w, common.ncpu(), wall_cap=900):
        table.update(t); files |= f; socks += s
    return table, files, socks


def fresh_interpreter_table(calls):
    """The same, in genuinely fresh interpreters (thorough tier): must agree with the fork-based table."""
    import subprocess
    calls = sorted(set(calls), key=repr)
    def w(wi, nw):
        out = {}
        mine = calls[wi::nw]
        for i in range(0, len(mine), 1):
            c = mine[i]
            p = subprocess.run([sys.executable, os.path.join(common.VERIF_DIR, 'run_check.py'), '--c19-fresh',
                                json.dumps(c)], capture_output=True, text=True, timeout=120,
                               env=dict(os.environ, PYTHONHASHSEED='0', PYTHONDONTWRITEBYTECODE='1'))
            if p.returncode != 0:
                raise HarnessError('fresh interpreter failed for %r: %s' % (c, p.stderr[-500:]))
            out[c] = tuple(json.loads(p.stdout.strip().splitlines()[-1]))
        return out
    table = {}
    for t in common.run_pool(w, common.ncpu(), wall_cap=3000):
        table.update(t)
    return table


def fresh_one(call_json):
    """(internal entry: run_check.py --c19-fresh '<call json>')"""
    call = tuple(json.loads(call_json))
    utils, jsonschema = prepare()
    fd = os.dup(1)
    quiet()
    d = tempfile.mkdtemp(prefix='athlib-verif-cwd-')
    try:
        os.chdir(d)
        o = execute(utils, jsonschema, call)
    finally:
        os.chdir('/')
        shutil.rmtree(d, ignore_errors=True)
    os.dup2(fd, 1)
    print(json.dumps(list(o)))
    return 0


def absolute_clauses(table, docs, files, socks):
    """The clauses of C19 that do not depend on a history. -> list of (class, detail)"""
    bad = []
    for d in docs:
        s = own_schema(d)
        base = os.path.basename(d)
        c0 = ('va', d, 'rel', s, 'rel', False); c1 = ('va', d, 'rel', s, 'rel', True)
        if 'invalid' in base:
            if table[c0] != ('ok', 'False'):
                bad.append(('bundled-invalid-sample-not-rejected', {'call': c0, 'outcome': table[c0]}))
            if not (table[c1][0] == 'exc' and table[c1][1] == 'ValidationError'):
                bad.append(('bundled-invalid-sample-does-not-raise-when-failure-expected', {'call': c1, 'outcome': table[c1]}))
        else:
            for c in (c0, c1):
                if table[c] != ('ok', 'True'):
                    bad.append(('bundled-valid-sample-does-not-validate', {'call': c, 'outcome': table[c]}))
    for m in MAIN:
        c = ('va', 'sample-jsons/%s.json' % m, 'rel', 'json/metaschema.json', 'rel', False)
        if table[c] != ('ok', 'True'):
            bad.append(('bundled-sample-invalid-against-metaschema', {'call': c, 'outcome': table[c]}))
    for s in SCHEMAS[:7]:
        c = ('sv', s, 'rel', 'Draft4Validator', False)
        if table[c] != ('ok', 'True'):
            bad.append(('bundled-schema-not-valid-draft4', {'call': c, 'outcome': table[c]}))
    if socks:
        bad.append(('network-access-attempted', {'attempts': socks[:5]}))
    root = common.REPO + os.sep
    outside = sorted(f for f in files if f.endswith('.json') and not os.path.abspath(f).startswith(root))
    if outside:
        bad.append(('json-file-opened-outside-the-repository', {'files': outside[:5]}))
    return bad


TIERS = {'quick': {'runs': 10000, 'wall': 1200, 'det': 48, 'faultruns': 0},
         'thorough': {'runs': 200000, 'wall': 10800, 'det': 400, 'faultruns': 20000}}


N_RANDOM = [None]
_SYS = {}


def systematic_histories(docs):
    """C19's quantifier: 'all call sequences of length <= 3 ...'.  Over the whole alphabet that is 5e10
    sequences; the part where a memo can go wrong is enumerated completely - for every cache key (13 schemas x
    8 validator classes; 25 documents x 13 schemas, repository-relative spelling) EVERY sequence of two and
    of three calls with that key (expect_failure in {False, True} at each position): 12 histories per key."""
    k = len(docs)
    if k not in _SYS:
        import itertools
        out = []
        keys = [('sv', s_, 'rel', v) for s_ in SCHEMAS for v in VALIDATORS]
        keys += [('va', d, 'rel', s_, 'rel') for d in docs for s_ in SCHEMAS]
        for key in keys:
            for n_ in (2, 3):
                for efs in itertools.product((False, True), repeat=n_):
                    out.append([key + (ef,) for ef in efs])
        _SYS[k] = out
    return _SYS[k]


def history_for(master, i, docs, table):
    if N_RANDOM[0] is not None and i >= N_RANDOM[0]:
        return 'same-key-enumerated', systematic_histories(docs)[i - N_RANDOM[0]]
    rng = common.rng_for(PROP, master, i)
    return gen_history(rng, docs, table)


def check_history(table, calls, outs):
    for j, (c, o) in enumerate(zip(calls, outs)):
        if o != table[c]:
            fresh = table[c]
            what = '%s-instead-of-%s' % (o[1] if o[0] == 'exc' else o[1], fresh[1] if fresh[0] == 'exc' else fresh[1])
            return ('history-dependent-outcome:%s:%s' % ('schema_valid' if c[0] == 'sv' else 'valid_against_schema', what),
                    {'index': j, 'call': c, 'got': o, 'fresh': fresh})
    return None


def minimise(mods, table, calls, cls, cwd, cap=None):
    def fails(sub):
        outs, _, _, _ = run_history(mods, sub, cwd, cap=cap)
        v = check_history(table, sub, outs)
        return v is not None and v[0] == cls
    small = common.ddmin(list(calls), fails, max_tests=80)
    outs, _, _, _ = run_history(mods, small, cwd, cap=cap)
    return small, check_history(table, small, outs), outs


def flags(calls, table):
    f = set()
    seen = {}
    keys = []
    for c in calls:
        k = cache_key(c)
        ef = c[-1]
        if k in seen:
            if seen[k][0] != ef:
                f.add('same-key-other-expectation')
                fr = table.get(seen[k][1])
                if fr is not None:
                    if fr == ('ok', 'True'):
                        f.add('cached-True-reasked-with-other-expectation')
                    else:
                        f.add('cached-negative-reasked-with-other-expectation')
        else:
            seen[k] = (ef, c)
        keys.append(k)
    for kind in ('sv', 'va'):
        ks = [k for k in keys if k[0] == kind]
        if len(set(ks)) > 20:
            f.add('overflow-' + kind)
            first20 = []
            for k in ks:
                if k not in first20:
                    first20.append(k)
            if any(k in first20[:20] for k in ks[len(first20):]):
                f.add('evicted-or-old-key-reasked')
    sv = {}
    for c in calls:
        if c[0] == 'sv':
            sv.setdefault((c[1], c[2]), set()).add(c[3] or 'Draft3Validator')
    if any(len(v) > 1 for v in sv.values()):
        f.add('one-schema-several-validators')
    sp = {}
    for c in calls:
        sp.setdefault(c[1], set()).add(c[2])
    if any(len(v) > 1 for v in sp.values()):
        f.add('both-spellings-of-one-file')
    return f


def main(tier_):
    t0 = time.time()
    master = common.master_seed()
    cfg = dict(TIERS[tier_])
    if os.environ.get('VERIF_RUNS'):
        cfg['runs'] = int(os.environ['VERIF_RUNS'])
    print('C19 schemasim tier=%s seed=%d histories=%d repo=%s' % (tier_, master, cfg['runs'], common.REPO), flush=True)
    docs = list_docs()
    A = alphabet(docs)
    cwd = tempfile.mkdtemp(prefix='athlib-verif-cwd-')
    try:
        return _main(tier_, master, cfg, docs, A, cwd, t0)
    finally:
        shutil.rmtree(cwd, ignore_errors=True)


def _main(tier_, master, cfg, docs, A, cwd, t0):
    N_RANDOM[0] = cfg['runs']
    n = cfg['runs'] + len(systematic_histories(docs))      # the seeded histories, then the enumerated ones
    # phase 0: which calls will the histories make?  (generation needs the table only as a bias, so
    # generate against the alphabet table first)
    table, files, socks = fresh_table(A, cwd)
    hist = {}
    need = set()
    corpus = []
    for pth in common.corpus_files(PROP):
        rp_ = common.load_replay(pth)
        corpus.append((os.path.basename(pth), [tuple(c) for c in rp_['trace']], (rp_.get('scenario') or {}).get('bounded_caches_capped_at')))
    for _, calls, _cap in corpus:
        need |= set(c for c in calls if c not in table)
    for i in range(n):
        kind, calls = history_for(master, i, docs, table)
        for c in calls:
            if c not in table:
                need.add(c)
    for i in range(cfg['faultruns']):
        # the diagnostic I/O-fault runs (thorough tier) draw their own histories: they need fresh outcomes too
        kind, calls = gen_history(common.rng_for(PROP, master, 'fault', i), docs, table)
        for c in calls[:12]:
            if c not in table:
                need.add(c)
    if need:
        t2, f2, s2 = fresh_table(need, cwd)
        table.update(t2); files |= f2; socks += s2
    absbad = absolute_clauses(table, docs, files, socks)
    fresh_cmp = None
    if tier_ == 'thorough':
        sub = sorted(table, key=repr)
        ft = fresh_interpreter_table(sub)
        diff = [c for c in sub if ft[c] != table[c]]
        fresh_cmp = {'calls': len(sub), 'disagree': len(diff)}
        if diff:
            raise HarnessError('fork-based fresh table disagrees with fresh interpreters on %d calls, e.g. %r: %r vs %r'
                               % (len(diff), diff[0], table[diff[0]], ft[diff[0]]))

    def w(wi, nw):
        mods = prepare()
        st = Counter(); hs = set(); nt = set(); viols = {}; samples = []; allfiles = set(); allsocks = []
        rd = [0]
        for i in range(wi, n, nw):
            kind, calls = history_for(master, i, docs, table)
            outs, opened, sk, _ = run_history(mods, calls, cwd, cap=cap_of(kind))
            rd[0] = (rd[0] + common.run_digest_term(i, [calls, common.canon_outcome(outs)])) & ((1 << 64) - 1)
            st.inc('runs'); st.inc('calls', len(calls)); st.inc('kind:' + kind.split('|')[0])
            if cap_of(kind):
                st.inc('fault:bounded-caches-capped-at-%d' % cap_of(kind))
            allfiles |= set(opened); allsocks += sk
            fl = flags(calls, table)
            for x in fl:
                st.inc('probe:' + x)
            key = hash(tuple(calls))
            hs.add(key)
            if fl & {'same-key-other-expectation', 'overflow-sv', 'overflow-va', 'one-schema-several-validators'}:
                nt.add(key)
            v = check_history(table, calls, outs)
            if v is not None:
                st.inc('violating_runs')
                if v[0] not in viols and len(viols) < 3:
                    small, mv, mouts = minimise(mods, table, calls, v[0], cwd, cap_of(kind))
                    viols[v[0]] = {'class': v[0], 'detail': (mv or v)[1], 'trace': [list(c) for c in small], 'cap': cap_of(kind),
                                   'outcomes': mouts, 'run_index': i, 'minimised_from': len(calls)}
            elif len(samples) < 2 and len(calls) <= 3 and 'same-key-other-expectation' in fl:
                samples.append({'run_index': i, 'calls': [list(c) for c in calls], 'outcomes': outs})
        # diagnostic-only I/O fault runs (never gating)
        fst = Counter()
        nf = cfg['faultruns']
        for i in range(wi, nf, nw):
            rng = common.rng_for(PROP, master, 'fault', i)
            kind, calls = gen_history(rng, docs, table)
            calls = calls[:12]
            fault = (rng.randint(1, 2 * len(calls) + 2), rng.choice(['oserror', 'short']))
            outs, opened, sk, fired = run_history(mods, calls, cwd, fault=fault)
            fst.inc('runs'); fst.inc('fired:' + fault[1], fired)
            bad = [j for j, (c, o) in enumerate(zip(calls, outs)) if o != table[c]]
            if len(bad) > 1:
                fst.inc('more_than_one_call_differs_after_one_fault')
            elif len(bad) == 1:
                fst.inc('faulted_call_differs')
        return {'st': st, 'hs': hs, 'nt': nt, 'viols': viols, 'samples': samples, 'files': allfiles,
                'socks': allsocks, 'fst': fst, 'rd': rd[0]}

    parts = common.run_pool(w, common.ncpu(), wall_cap=cfg['wall'])
    st = Counter(); fst = Counter(); hs = set(); nt = set(); viols = {}; samples = []
    rd = 0
    for p in parts:
        rd = (rd + p['rd']) & ((1 << 64) - 1)
        st.merge(p['st']); fst.merge(p['fst']); hs |= p['hs']; nt |= p['nt']; samples += p['samples']
        files |= p['files']; socks += p['socks']
        for cls, v in p['viols'].items():
            if cls not in viols or v['run_index'] < viols[cls]['run_index']:
                viols[cls] = v
    # directed regression: the recorded failing histories of this property
    cst = {'replayed': 0, 'reproduced': 0}
    if corpus:
        mods0 = None
        def cw(wi, nw):
            mods = prepare()
            return [(name, calls, run_history(mods, calls, cwd, cap=cap_)[0]) for name, calls, cap_ in corpus[wi::nw]]
        for part in common.run_pool(cw, min(4, len(corpus)), wall_cap=600):
            for name, calls, outs in part:
                cst['replayed'] += 1
                v = check_history(table, calls, outs)
                if v is not None:
                    cst['reproduced'] += 1
                    viols.setdefault(v[0], {'class': v[0], 'detail': v[1], 'trace': [list(c) for c in calls], 'outcomes': outs,
                                            'run_index': -1, 'minimised_from': len(calls)})
    # history-independent clauses, re-evaluated with everything the histories opened
    absbad = absolute_clauses(table, docs, files, socks)
    det = determinism_selftest(master, cfg['det'], docs, table, cwd)
    wall = time.time() - t0
    digest = common.tree_digest(subdirs=('athlib', 'json', 'sample-jsons'))
    vlines = []
    klines = []
    for cls, v in sorted(viols.items()):
        k = common.match_known(PROP, cls, {'trace': v['trace'], 'detail': v['detail']})
        if k:
            klines.append('KNOWN-FINDING: property=%s sig=%s %s' % (PROP, k[0], k[1]))
            continue
        name = re.sub(r'[^A-Za-z0-9_.-]+', '_', cls)[:80] + '-s%d' % master
        path = common.write_replay(PROP, name, {
            'engine': 'schemasim', 'master_seed': master, 'run_index': v['run_index'], 'athlib_tree_digest': digest,
            'trace': v['trace'], 'violation': {'class': cls, 'detail': v['detail']}, 'outcomes': v['outcomes'],
            'scenario': {'bounded_caches_capped_at': v.get('cap')},
            'event_digest': common.digest_of(v['outcomes']), 'minimised_from': {'calls': v['minimised_from']}})
        vlines.append('VIOLATION property=%s replay=%s' % (PROP, path))
    seenabs = set()
    for cls, det_ in absbad:
        if cls in seenabs:
            continue
        seenabs.add(cls)
        name = re.sub(r'[^A-Za-z0-9_.-]+', '_', cls)[:80] + '-s%d' % master
        tr = [list(det_['call'])] if 'call' in det_ else []
        path = common.write_replay(PROP, name, {
            'engine': 'schemasim', 'master_seed': master, 'run_index': -1, 'athlib_tree_digest': digest,
            'trace': tr, 'violation': {'class': cls, 'detail': det_}, 'outcomes': [], 'absolute_clause': True,
            'event_digest': None, 'minimised_from': {'calls': len(tr)}})
        vlines.append('VIOLATION property=%s replay=%s' % (PROP, path))
    runs = st.get('runs', 0)
    coverage = {
        'evaluations': runs,
        'distinct_nontrivial': len(nt),
        'rule': 'one evaluation = one seeded call history (60% of length 1-3 biased to cache-key collisions: same key with '
                'the other expect_failure / another validator / the other spelling of the file; 40% of length 21-80 overflowing '
                'the 20-entry caches: random, fill-then-probe, thrash) executed in a child forked from a pristine importer; '
                'every outcome compared with the outcome of the same call made first in such a child; distinct = distinct call '
                'sequences; non-trivial = repeats a cache key with another expectation, uses one schema with several '
                'validators, or exceeds 20 distinct keys of one cache; after the seeded histories EVERY sequence of two and of three '
                'calls with one cache key (expect_failure False/True at each position) is executed for every key in the repository-relative spelling',
        'samples': samples[:4],
        'distinct_histories': len(hs),
        'logical_steps': st.get('calls', 0),
        'simulated_time': 'not applicable - no clock in the subject; logical steps (calls) reported instead',
        'runs_per_hour': int(runs / max(wall, 1e-9) * 3600),
        'seeds': {'master': master, 'first_index': 0, 'last_index': n - 1},
        'alphabet_calls': len(A), 'fresh_outcome_table_size': len(table),
        'fresh_table_outcomes': dict(Counter_of(o[1] if o[0] == 'ok' else o[1] for o in table.values())),
        'fresh_interpreter_crosscheck': fresh_cmp,
        'history_kinds': {k[5:]: v for k, v in st.items() if k.startswith('kind:')},
        'probes': {k[6:]: v for k, v in st.items() if k.startswith('probe:')},
        'faults_fired': {'network_partitioned_socket_attempts': len(socks),
                         'knob_randomisation': {k[6:]: v for k, v in st.items() if k.startswith('fault:')},
                         'diagnostic_io_faults(not gating)': {k: v for k, v in fst.items()}},
        'files_opened_distinct_json': len([f for f in files if f.endswith('.json')]),
        'absolute_clause_failures': sorted(seenabs),
        'violating_runs': st.get('violating_runs', 0),
        'violation_classes': sorted(viols),
        'regression_corpus': cst,
        'known_findings_matched': len(klines),
        'determinism': det,
        'all_runs_digest': '%016x' % rd,
        'components': {'real': ['athlib.utils (working tree)', 'jsonschema 3.2', 'json', 'urllib file: handler', 'the bundled schema and sample files'],
                       'simulated': ['process freshness (fork from a pristine importer)', 'network (permanently partitioned: socket seam raises and records)',
                                     'file opens (pass-through seam recording every path; failing/short reads only in the diagnostic fault runs)'],
                       'stub': []},
        'workers': common.ncpu(), 'athlib_tree_digest': digest,
    }
    common.write_evidence(PROP, tier_, master, coverage, wall, len(vlines), [
        'fork() of a process that imported athlib but never called it is taken as a fresh process (cross-checked against fresh interpreters in the thorough tier)',
        'outcomes are compared as value repr, or exception type plus a hash of the message',
        'I/O faults are diagnostic only: C19 quantifies over call histories, not over failing reads'])
    for l in klines:
        print(l)
    for l in vlines:
        print(l)
    print('C19: histories=%d distinct=%d nontrivial=%d calls=%d violating=%d classes=%s abs=%s det=%s wall=%.1fs' %
          (runs, len(hs), len(nt), st.get('calls', 0), st.get('violating_runs', 0), sorted(viols), sorted(seenabs), det, wall))
    if det['diverged']:
        print('HARNESS-ERROR determinism self-test diverged: %s' % det)
        return 2
    return 1 if vlines else 0


def Counter_of(it):
    c = Counter()
    for x in it:
        c.inc(str(x))
    return c


def det_fingerprints(prop, master, idxs, k=None):
    docs = list_docs()
    mods = prepare()
    cwd = tempfile.mkdtemp(prefix='athlib-verif-cwd-')
    try:
        out = {}
        for i in idxs:
            kind, calls = history_for(master, i, docs, {})
            outs, opened, sk, _ = run_history(mods, calls, cwd, cap=cap_of(kind))
            out[str(i)] = common.digest_of([kind, calls, common.canon_outcome(outs), [os.path.relpath(f, common.REPO) for f in opened if f.endswith('.json')]])
        return out
    finally:
        shutil.rmtree(cwd, ignore_errors=True)


def determinism_selftest(master, n, docs, table, cwd):
    import subprocess
    idxs = list(range(n))
    def w(wi, nw):
        return det_fingerprints(PROP, master, idxs[wi::nw])
    a = {}
    for p in common.run_pool(w, min(8, common.ncpu()), wall_cap=900):
        a.update(p)
    b = {}
    for p in common.run_pool(w, 3, wall_cap=900):
        b.update(p)
    env = dict(os.environ, VERIF_HASHSEED='777', PYTHONHASHSEED='777', PYTHONDONTWRITEBYTECODE='1')
    sub = idxs[:max(4, n // 4)]
    p = subprocess.run([sys.executable, os.path.join(common.VERIF_DIR, 'run_check.py'), '--det-fingerprint',
                        PROP, str(master), ','.join(map(str, sub)), '0'], env=env, capture_output=True, text=True, timeout=1200)
    if p.returncode != 0:
        raise HarnessError('determinism sub-interpreter failed: %s' % (p.stdout[-800:] + p.stderr[-800:]))
    cfp = json.loads(p.stdout.strip().splitlines()[-1])
    div = [i for i in idxs if a[str(i)] != b[str(i)]] + [int(i) for i in cfp if cfp[i] != a[i]]
    return {'checked': 2 * n + len(cfp), 'diverged': len(div), 'diverged_idx': div[:5]}


def replay(path):
    rp = common.load_replay(path)
    docs = list_docs()
    calls = [tuple(c) for c in rp['trace']]
    cwd = tempfile.mkdtemp(prefix='athlib-verif-cwd-')
    try:
        table, files, socks = fresh_table(calls, cwd) if calls else ({}, set(), [])
        if rp.get('absolute_clause'):
            A = alphabet(docs)
            table, files, socks = fresh_table(A, cwd)
            bad = absolute_clauses(table, docs, files, socks)
            hit = [b for b in bad if b[0] == rp['violation']['class']]
            print('replay: absolute clauses failing now: %s' % sorted(set(b[0] for b in bad)))
            if hit:
                print('VIOLATION property=%s replay=%s' % (PROP, path))
                return 1
            return 0
        mods = prepare()
        cap = (rp.get('scenario') or {}).get('bounded_caches_capped_at')
        outs, opened, sk, _ = run_history(mods, calls, cwd, cap=cap)
    finally:
        shutil.rmtree(cwd, ignore_errors=True)
    v = check_history(table, calls, outs)
    for c, o in zip(calls, outs):
        print('replay: %r -> %r   (fresh: %r)' % (c, o, table[c]))
    if v is None:
        print('replay: no violation reproduced (recorded class %s)' % rp['violation']['class'])
        return 0
    same = v[0] == rp['violation']['class']
    print('replay: violation class %s (%s recorded class)' % (v[0], 'same as' if same else 'DIFFERENT from'))
    print('VIOLATION property=%s replay=%s' % (PROP, path))
    dg = common.digest_of(outs)
    if common.tree_digest(subdirs=('athlib', 'json', 'sample-jsons')) == rp.get('athlib_tree_digest') and \
            (not same or dg != rp.get('event_digest')):
        print('HARNESS-ERROR replay diverged on an identical tree')
        return 2
    return 1
